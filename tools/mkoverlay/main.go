// mkoverlay produces a build overlay for the simulator: a copy of
// /repo/datasources/json/workers.go in which the package-level, immediately
// invoked func literal that starts the global parser worker pool at package
// init is turned into a named constructor, so that the simulator can create the
// pool inside its synctest bubble for every run (goroutines started at package
// init live outside any bubble) and stop it at the end of the run.
// Nothing else in the file is changed. Exit 2 if the expected pattern is gone.
package main

import (
	"bytes"
	"encoding/json"
	"flag"
	"fmt"
	"go/ast"
	"go/format"
	"go/parser"
	"go/token"
	"os"
	"path/filepath"
)

const helpers = `

// ---- added by /verif/tools/mkoverlay (simulator builds only) ----

// SimParserWorkerCount overrides the worker count of the next pool (0 = GOMAXPROCS).
var SimParserWorkerCount int

func simParserWorkers() int {
	if SimParserWorkerCount > 0 {
		return SimParserWorkerCount
	}
	return runtime.GOMAXPROCS(0)
}

// SimStartParserPool creates the parser worker pool (inside the caller's bubble).
func SimStartParserPool(workers int) {
	SimParserWorkerCount = workers
	parserWorkReceiveChannel = simNewParserPool()
}

// SimStopParserPool lets the pool's workers exit.
func SimStopParserPool() {
	if parserWorkReceiveChannel != nil {
		close(parserWorkReceiveChannel)
		parserWorkReceiveChannel = nil
	}
}
`

func fail(format string, args ...any) {
	fmt.Fprintf(os.Stderr, "mkoverlay: "+format+"\n", args...)
	os.Exit(2)
}

func main() {
	repo := flag.String("repo", "/repo", "repository root")
	out := flag.String("out", "", "output directory (overlay.json and rewritten files)")
	flag.Parse()
	if *out == "" {
		fail("-out required")
	}
	src := filepath.Join(*repo, "datasources/json/workers.go")
	fset := token.NewFileSet()
	file, err := parser.ParseFile(fset, src, nil, parser.ParseComments)
	if err != nil {
		fail("parse %s: %v", src, err)
	}
	var lit *ast.FuncLit
	found := false
	for _, d := range file.Decls {
		gd, ok := d.(*ast.GenDecl)
		if !ok || gd.Tok != token.VAR {
			continue
		}
		for _, sp := range gd.Specs {
			vs := sp.(*ast.ValueSpec)
			if len(vs.Names) != 1 || vs.Names[0].Name != "parserWorkReceiveChannel" || len(vs.Values) != 1 {
				continue
			}
			call, ok := vs.Values[0].(*ast.CallExpr)
			if !ok || len(call.Args) != 0 {
				continue
			}
			fl, ok := call.Fun.(*ast.FuncLit)
			if !ok {
				continue
			}
			lit = fl
			// var parserWorkReceiveChannel chan<- jobIn   (no initialiser)
			vs.Type = fl.Type.Results.List[0].Type
			vs.Values = nil
			found = true
		}
	}
	if !found {
		fail("pattern `var parserWorkReceiveChannel = func() chan<- jobIn {...}()` not found in %s", src)
	}
	// runtime.GOMAXPROCS(0) inside the constructor -> simParserWorkers()
	replaced := 0
	ast.Inspect(lit.Body, func(n ast.Node) bool {
		as, ok := n.(*ast.AssignStmt)
		if !ok {
			return true
		}
		for i, rhs := range as.Rhs {
			if call, ok := rhs.(*ast.CallExpr); ok {
				if sel, ok := call.Fun.(*ast.SelectorExpr); ok {
					if x, ok := sel.X.(*ast.Ident); ok && x.Name == "runtime" && sel.Sel.Name == "GOMAXPROCS" {
						as.Rhs[i] = &ast.CallExpr{Fun: ast.NewIdent("simParserWorkers")}
						replaced++
					}
				}
			}
		}
		return true
	})
	if replaced != 1 {
		fail("expected exactly one `x := runtime.GOMAXPROCS(0)` in the pool constructor, found %d", replaced)
	}
	file.Decls = append(file.Decls, &ast.FuncDecl{
		Name: ast.NewIdent("simNewParserPool"),
		Type: lit.Type,
		Body: lit.Body,
	})
	var buf bytes.Buffer
	if err := format.Node(&buf, fset, file); err != nil {
		fail("print: %v", err)
	}
	buf.WriteString(helpers)
	formatted, err := format.Source(buf.Bytes())
	if err != nil {
		fail("format: %v", err)
	}
	dir := filepath.Join(*out, "overlay")
	if err := os.MkdirAll(dir, 0755); err != nil {
		fail("%v", err)
	}
	dst := filepath.Join(dir, "json_workers.go")
	if err := os.WriteFile(dst, formatted, 0644); err != nil {
		fail("%v", err)
	}
	ov := map[string]map[string]string{"Replace": {src: dst}}
	data, _ := json.MarshalIndent(ov, "", " ")
	if err := os.WriteFile(filepath.Join(*out, "overlay.json"), data, 0644); err != nil {
		fail("%v", err)
	}
}
