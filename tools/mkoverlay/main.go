// mkoverlay produces a build overlay for the simulator: a copy of
// /repo/datasources/json/workers.go in which the package-level, immediately
// invoked func literal that starts the global parser worker pool at package
// init is turned into a named constructor, so that the simulator can create the
// pool inside its synctest bubble for every run (goroutines started at package
// init live outside any bubble) and stop it at the end of the run.
// Nothing else in the file is changed. Exit 2 if the expected pattern is gone.
//
// Second product: cmd/zz_sim_runquery.go (a file *added* by the overlay), holding
// func SimRunQuery: the statements of rootCmd.RunE in cmd/root.go from
// `statement, err := sqlparser.Parse(args[0])` to the end of the function,
// copied verbatim (typecheck, optimise, materialise, the per-output-mode choice of
// Limit / OrderSensitiveTransform, the real printers, sink.Run), with the
// environment passed in instead of being built from the config file and the
// installed plugins. The simulator calls it inside its bubble, so what runs under
// the seeded schedules is RunE's own code, not a copy kept in /verif.
package main

import (
	"bytes"
	"encoding/json"
	"flag"
	"fmt"
	"go/ast"
	"go/format"
	"go/parser"
	"go/token"
	"os"
	"path/filepath"
	"strconv"
	"strings"
)

const helpers = `

// ---- added by /verif/tools/mkoverlay (simulator builds only) ----

// SimParserWorkerCount overrides the worker count of the next pool (0 = GOMAXPROCS).
var SimParserWorkerCount int

func simParserWorkers() int {
	if SimParserWorkerCount > 0 {
		return SimParserWorkerCount
	}
	return runtime.GOMAXPROCS(0)
}

// SimStartParserPool creates the parser worker pool (inside the caller's bubble).
func SimStartParserPool(workers int) {
	SimParserWorkerCount = workers
	parserWorkReceiveChannel = simNewParserPool()
}

// SimStopParserPool lets the pool's workers exit.
func SimStopParserPool() {
	if parserWorkReceiveChannel != nil {
		close(parserWorkReceiveChannel)
		parserWorkReceiveChannel = nil
	}
}
`

func fail(format string, args ...any) {
	fmt.Fprintf(os.Stderr, "mkoverlay: "+format+"\n", args...)
	os.Exit(2)
}

func main() {
	repo := flag.String("repo", "/repo", "repository root")
	out := flag.String("out", "", "output directory (overlay.json and rewritten files)")
	flag.Parse()
	if *out == "" {
		fail("-out required")
	}
	src := filepath.Join(*repo, "datasources/json/workers.go")
	fset := token.NewFileSet()
	file, err := parser.ParseFile(fset, src, nil, parser.ParseComments)
	if err != nil {
		fail("parse %s: %v", src, err)
	}
	var lit *ast.FuncLit
	found := false
	for _, d := range file.Decls {
		gd, ok := d.(*ast.GenDecl)
		if !ok || gd.Tok != token.VAR {
			continue
		}
		for _, sp := range gd.Specs {
			vs := sp.(*ast.ValueSpec)
			if len(vs.Names) != 1 || vs.Names[0].Name != "parserWorkReceiveChannel" || len(vs.Values) != 1 {
				continue
			}
			call, ok := vs.Values[0].(*ast.CallExpr)
			if !ok || len(call.Args) != 0 {
				continue
			}
			fl, ok := call.Fun.(*ast.FuncLit)
			if !ok {
				continue
			}
			lit = fl
			// var parserWorkReceiveChannel chan<- jobIn   (no initialiser)
			vs.Type = fl.Type.Results.List[0].Type
			vs.Values = nil
			found = true
		}
	}
	if !found {
		fail("pattern `var parserWorkReceiveChannel = func() chan<- jobIn {...}()` not found in %s", src)
	}
	// runtime.GOMAXPROCS(0) inside the constructor -> simParserWorkers()
	replaced := 0
	ast.Inspect(lit.Body, func(n ast.Node) bool {
		as, ok := n.(*ast.AssignStmt)
		if !ok {
			return true
		}
		for i, rhs := range as.Rhs {
			if call, ok := rhs.(*ast.CallExpr); ok {
				if sel, ok := call.Fun.(*ast.SelectorExpr); ok {
					if x, ok := sel.X.(*ast.Ident); ok && x.Name == "runtime" && sel.Sel.Name == "GOMAXPROCS" {
						as.Rhs[i] = &ast.CallExpr{Fun: ast.NewIdent("simParserWorkers")}
						replaced++
					}
				}
			}
		}
		return true
	})
	if replaced != 1 {
		fail("expected exactly one `x := runtime.GOMAXPROCS(0)` in the pool constructor, found %d", replaced)
	}
	file.Decls = append(file.Decls, &ast.FuncDecl{
		Name: ast.NewIdent("simNewParserPool"),
		Type: lit.Type,
		Body: lit.Body,
	})
	var buf bytes.Buffer
	if err := format.Node(&buf, fset, file); err != nil {
		fail("print: %v", err)
	}
	buf.WriteString(helpers)
	formatted, err := format.Source(buf.Bytes())
	if err != nil {
		fail("format: %v", err)
	}
	dir := filepath.Join(*out, "overlay")
	if err := os.MkdirAll(dir, 0755); err != nil {
		fail("%v", err)
	}
	dst := filepath.Join(dir, "json_workers.go")
	if err := os.WriteFile(dst, formatted, 0644); err != nil {
		fail("%v", err)
	}
	rqSrc, rqDst := genRunQuery(*repo, dir)
	ov := map[string]map[string]string{"Replace": {src: dst, rqSrc: rqDst}}
	data, _ := json.MarshalIndent(ov, "", " ")
	if err := os.WriteFile(filepath.Join(*out, "overlay.json"), data, 0644); err != nil {
		fail("%v", err)
	}
}


// genRunQuery writes overlay/cmd_sim_runquery.go and returns (path it is overlaid at, generated file).
func genRunQuery(repo, dir string) (string, string) {
	src := filepath.Join(repo, "cmd/root.go")
	data, err := os.ReadFile(src)
	if err != nil {
		fail("%v", err)
	}
	fset := token.NewFileSet()
	file, err := parser.ParseFile(fset, src, data, parser.ParseComments)
	if err != nil {
		fail("parse %s: %v", src, err)
	}
	var runE *ast.FuncLit
	ast.Inspect(file, func(n ast.Node) bool {
		kv, ok := n.(*ast.KeyValueExpr)
		if !ok {
			return true
		}
		if k, ok := kv.Key.(*ast.Ident); ok && k.Name == "RunE" {
			if fl, ok := kv.Value.(*ast.FuncLit); ok && runE == nil {
				runE = fl
			}
		}
		return true
	})
	if runE == nil {
		fail("rootCmd's RunE func literal not found in %s", src)
	}
	first := -1
	for i, st := range runE.Body.List {
		as, ok := st.(*ast.AssignStmt)
		if !ok || len(as.Lhs) != 2 || len(as.Rhs) != 1 {
			continue
		}
		if id, ok := as.Lhs[0].(*ast.Ident); !ok || id.Name != "statement" {
			continue
		}
		if call, ok := as.Rhs[0].(*ast.CallExpr); ok {
			if sel, ok := call.Fun.(*ast.SelectorExpr); ok && sel.Sel.Name == "Parse" {
				first = i
			}
		}
	}
	if first < 0 {
		fail("`statement, err := sqlparser.Parse(args[0])` not found in RunE of %s", src)
	}
	lo := fset.Position(runE.Body.List[first].Pos()).Offset
	hi := fset.Position(runE.Body.Rbrace).Offset
	tail := string(data[lo:hi])
	// package names used in the tail (+ the wrapper's own): keep only those imports
	used := map[string]bool{"context": true, "physical": true, "manager": true}
	for _, st := range runE.Body.List[first:] {
		ast.Inspect(st, func(n ast.Node) bool {
			if sel, ok := n.(*ast.SelectorExpr); ok {
				if x, ok := sel.X.(*ast.Ident); ok && x.Obj == nil {
					used[x.Name] = true
				}
			}
			return true
		})
	}
	var imports []string
	for _, im := range file.Imports {
		path, _ := strconv.Unquote(im.Path.Value)
		name := path[strings.LastIndex(path, "/")+1:]
		if i := strings.LastIndex(name, ".v"); i > 0 {
			name = name[:i]
		}
		if im.Name != nil {
			name = im.Name.Name
		}
		if used[name] {
			if im.Name != nil {
				imports = append(imports, "\t"+im.Name.Name+" "+im.Path.Value)
			} else {
				imports = append(imports, "\t"+im.Path.Value)
			}
		}
	}
	var b bytes.Buffer
	b.WriteString("// Code generated by /verif/tools/mkoverlay from cmd/root.go (simulator builds only). DO NOT EDIT.\n\n")
	b.WriteString("package cmd\n\nimport (\n" + strings.Join(imports, "\n") + "\n)\n\n")
	b.WriteString("// SimRunQuery is rootCmd.RunE from sqlparser.Parse to the end, verbatim; the environment is the caller's.\n")
	b.WriteString("func SimRunQuery(ctx context.Context, query string, env physical.Environment, outputMode string, optimizeFlag bool, describeFlag bool) error {\n")
	b.WriteString("\targs := []string{query}\n\tvar installedPlugins []manager.PluginMetadata\n")
	b.WriteString("\toutput, optimize, describe, explain = outputMode, optimizeFlag, describeFlag, 0\n\t")
	b.WriteString(tail)
	b.WriteString("}\n")
	formatted, err := format.Source(b.Bytes())
	if err != nil {
		fail("format generated SimRunQuery: %v\n%s", err, b.String())
	}
	dst := filepath.Join(dir, "cmd_sim_runquery.go")
	if err := os.WriteFile(dst, formatted, 0644); err != nil {
		fail("%v", err)
	}
	return filepath.Join(repo, "cmd/zz_sim_runquery.go"), dst
}
