module verif/tools/mkoverlay

go 1.23
