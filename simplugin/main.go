// simplugin is the test plugin of the C27 process-tier simulation: built against
// /repo's plugins SDK, it serves one table t(id Int, version String) whose rows
// carry the version string linked into the binary, so a query through the real
// gRPC plugin path shows which installed version actually ran.
package main

import (
	"context"
	"fmt"
	"time"

	"github.com/cube2222/octosql/execution"
	"github.com/cube2222/octosql/octosql"
	"github.com/cube2222/octosql/physical"
	"github.com/cube2222/octosql/plugins"
)

var Version = "0.0.0" // set with -ldflags "-X main.Version=..."

type db struct{}

func (db) ListTables(ctx context.Context) ([]string, error) { return []string{"t"}, nil }

func (db) GetTable(ctx context.Context, name string, options map[string]string) (physical.DatasourceImplementation, physical.Schema, error) {
	if name != "t" {
		return nil, physical.Schema{}, fmt.Errorf("no such table: %s", name)
	}
	return impl{}, physical.NewSchema([]physical.SchemaField{
		{Name: "id", Type: octosql.Int},
		{Name: "version", Type: octosql.String},
	}, -1, physical.WithNoRetractions(true)), nil
}

type impl struct{}

func (impl) Materialize(ctx context.Context, env physical.Environment, schema physical.Schema, pushedDownPredicates []physical.Expression) (execution.Node, error) {
	return node{fields: schema.Fields}, nil
}

func (impl) PushDownPredicates(newPredicates, pushedDownPredicates []physical.Expression) (rejected, pushedDown []physical.Expression, changed bool) {
	return newPredicates, []physical.Expression{}, false
}

type node struct{ fields []physical.SchemaField }

func (n node) Run(ctx execution.ExecutionContext, produce execution.ProduceFn, metaSend execution.MetaSendFn) error {
	for i := int64(1); i <= 2; i++ {
		values := make([]octosql.Value, len(n.fields))
		for j, f := range n.fields {
			switch f.Name {
			case "id":
				values[j] = octosql.NewInt(i)
			case "version":
				values[j] = octosql.NewString(Version)
			}
		}
		if err := produce(execution.ProduceFromExecutionContext(ctx), execution.NewRecord(values, false, time.Time{})); err != nil {
			return err
		}
	}
	return nil
}

func main() {
	plugins.Run(func(ctx context.Context, configDecoder plugins.ConfigDecoder) (physical.Database, error) {
		return db{}, nil
	})
}
