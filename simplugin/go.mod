module verif/simplugin

go 1.18

require github.com/cube2222/octosql v0.0.0

require (
	github.com/awalterschulze/gographviz v2.0.3+incompatible // indirect
	github.com/cespare/xxhash v1.1.0 // indirect
	github.com/dgraph-io/ristretto v0.0.3 // indirect
	github.com/golang/protobuf v1.5.3 // indirect
	github.com/google/btree v1.1.2 // indirect
	github.com/oklog/ulid/v2 v2.0.2 // indirect
	github.com/segmentio/fasthash v1.0.3 // indirect
	github.com/tidwall/btree v1.3.1 // indirect
	github.com/zyedidia/generic v1.1.0 // indirect
	golang.org/x/exp v0.0.0-20220414153411-bcd21879b8fd // indirect
	golang.org/x/net v0.10.0 // indirect
	golang.org/x/sys v0.8.0 // indirect
	golang.org/x/text v0.9.0 // indirect
	google.golang.org/genproto v0.0.0-20230306155012-7f2fa6fef1f4 // indirect
	google.golang.org/grpc v1.55.0 // indirect
	google.golang.org/protobuf v1.30.0 // indirect
	gopkg.in/yaml.v3 v3.0.1 // indirect
)

replace github.com/cube2222/octosql => /repo

replace github.com/segmentio/parquet-go v0.0.0-20220421002521-93f8e5ed3407 => github.com/cube2222/parquet-go v0.0.0-20220512155810-0e06eee50261
