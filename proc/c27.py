#!/usr/bin/env python3
"""C27: plugin installation survives a crash at any point (process tier).

The real octosql binary (built with -tags verif) runs `plugin install ...` / `plugin repository add ...`
against a scratch HOME that plays the durable disk. The tape picks the initial state, the configuration,
the operation and one or two crashes: a crash point (hook H4) and a mode - kill (SIGKILL at that step)
or tear:k (from that step on any write growing a file past k bytes is cut there by the kernel and the
process dies of SIGXFSZ: a torn write). After the last crash the faults stop and recovery invocations check:
  * octosql still starts (a plain query and --describe exit 0) whenever every configured database was
    resolvable before the operation;
  * every configured database that resolved to a runnable version before still runs, and every row carries
    the previous version or the new one (the new one if the operation ran to completion);
  * `octosql plugin install` (no arguments) starts and exits 0, after which every configured database runs.
"""
import json, os, shutil, subprocess, sys, tempfile

sys.path.insert(0, os.path.dirname(os.path.abspath(__file__)))
import simlib

OCTOSQL = os.environ.get("VERIF_OCTOSQL", "/verif/.build/octosql")
HTTPROOT = os.environ.get("VERIF_HTTPROOT", "/verif/.build/httproot")
VERSIONS = ["1.0.0", "1.1.0", "2.0.0"]

INITIALS = [("empty", []), ("v1", ["1.0.0"]), ("v1_v11", ["1.0.0", "1.1.0"])]
# (label, [(db name, constraint or None)])
CONFIGS = [
    ("none", []),
    ("db_any", [("db1", None)]),
    ("db_ge11", [("db1", ">=1.1.0")]),
    ("db_any+db_exact1", [("db1", None), ("db2", "1.0.0")]),
]
# (label, args, version it installs (None = decided by config / not an install))
OPS = [
    ("install_latest", ["plugin", "install", "simtest"], "2.0.0"),
    ("install_1.1.0", ["plugin", "install", "simtest@1.1.0"], "1.1.0"),
    ("install_1.0.0", ["plugin", "install", "simtest@1.0.0"], "1.0.0"),
    ("install_from_config", ["plugin", "install"], None),
    ("repository_add", ["plugin", "repository", "add", "http://verif.local/extra/repo.json"], None),
    # the first install of a different plugin: no configured database uses it, but a half-made directory of it is
    # seen by every later start-up (plugin discovery lists all installed plugins)
    ("install_other", ["plugin", "install", "other"], None),
]
SHORT_TMP = tempfile.mkdtemp(prefix="vp", dir="/tmp")  # unix socket paths must stay short


def vtuple(v):
    return tuple(int(x) for x in v.split("."))


def satisfies(v, c):
    if c is None:
        return True
    if c.startswith(">="):
        return vtuple(v) >= vtuple(c[2:])
    return v == c


def resolve(installed, c):
    ok = [v for v in installed if satisfies(v, c)]
    return max(ok, key=vtuple) if ok else None


def norm_tmp(rel):
    """Random suffixes of temporary names (os.MkdirTemp / os.CreateTemp) are not part of the observable state."""
    import re
    rel = re.sub(r"(\.tmp-|-tmp-|tmp-)\d+", r"\1*", rel)
    rel = re.sub(r"(\.staging/[^/]*?-)\d+(/|$)", r"\1*\2", rel)
    return rel


class World:
    def __init__(self, workdir):
        self.workdir = workdir
        self.home = os.path.join(workdir, "h")
        self.pristine = {}
        self.sizes = {}
        self.plugin_dir = None  # None: default (~/.octosql/plugins); else OCTOSQL_PLUGIN_DIR relative to HOME

    def env(self, extra=None):
        e = {"HOME": self.home, "OCTOSQL_NO_TELEMETRY": "1", "PATH": os.environ.get("PATH", ""),
             "OCTOSQL_PLUGIN_REPOSITORY_OFFICIAL_URL": "http://verif.local/repo.json", "VERIF_HTTP_ROOT": HTTPROOT,
             "OCTOSQL_PLUGIN_TMP_DIR": SHORT_TMP, "GOMAXPROCS": "2"}
        if self.plugin_dir is not None:
            e["OCTOSQL_PLUGIN_DIR"] = os.path.join(self.home, "") + self.plugin_dir
        e.update(extra or {})
        return e

    def octosql(self, args, extra=None, timeout=60):
        try:
            p = subprocess.run([OCTOSQL] + args, env=self.env(extra), cwd=self.workdir, capture_output=True, timeout=timeout)
            return p.returncode, p.stdout.decode("utf-8", "replace"), simlib.norm_err(p.stderr.decode("utf-8", "replace"))
        except subprocess.TimeoutExpired:
            return None, "", "timeout"

    def reset(self, initial):
        """HOME := pristine copy of the initial state (built once per worker by clean installs)."""
        label, versions = initial
        label = label + "@" + str(self.plugin_dir).replace("/", "_")
        src = os.path.join(self.workdir, "pristine_" + label)
        if label not in self.pristine:
            shutil.rmtree(self.home, ignore_errors=True)
            os.makedirs(self.home)
            for v in versions:
                rc, out, err = self.octosql(["plugin", "install", "simtest@" + v])
                if rc != 0:
                    raise RuntimeError("clean install of %s failed: %s" % (v, err[-500:]))
            shutil.rmtree(src, ignore_errors=True)
            shutil.copytree(self.home, src, symlinks=True)
            self.pristine[label] = True
        shutil.rmtree(self.home, ignore_errors=True)
        self.clone(src, self.home)

    def clone(self, src, dst):
        """Copy of a pristine tree; the big plugin binaries are hard-linked (octosql never writes into an
        installed binary in place: it removes or renames), everything else is copied. The link count is the
        tripwire: a pristine binary whose size changed means something wrote through the link."""
        for root, dirs, files in os.walk(src):
            rel = os.path.relpath(root, src)
            os.makedirs(os.path.join(dst, rel), exist_ok=True)
            for f in files:
                sp, dp = os.path.join(root, f), os.path.join(dst, rel, f)
                size = os.path.getsize(sp)
                if size > 1 << 20:
                    if self.sizes.setdefault(sp, size) != size:
                        raise RuntimeError("pristine file %s changed size: the system under test wrote through a hard link" % sp)
                    os.link(sp, dp)
                else:
                    shutil.copy2(sp, dp)

    def write_config(self, dbs):
        os.makedirs(os.path.join(self.home, ".octosql"), exist_ok=True)
        lines = []
        if dbs:
            lines.append("databases:")
            for name, c in dbs:
                lines += ["  - name: %s" % name, "    type: simtest"]
                if c:
                    lines.append('    version: "%s"' % c)
        open(os.path.join(self.home, ".octosql", "octosql.yml"), "w").write("\n".join(lines) + "\n")

    def listing(self):
        out = []
        base = self.home
        for root, dirs, files in os.walk(base):
            dirs.sort()
            for f in sorted(files):
                p = os.path.join(root, f)
                rel = os.path.relpath(p, base)
                if "/tmp/" in "/" + rel or rel.endswith("logs.txt") or rel.endswith("octosql.yml"):
                    continue
                out.append("%s:%d" % (norm_tmp(rel), os.path.getsize(p)))
            for d in dirs:
                rel = os.path.relpath(os.path.join(root, d), base)
                if "/tmp" not in "/" + rel:
                    out.append(norm_tmp(rel) + "/")
        return sorted(out)


WORLD = None
DRY = {}  # (initial, config, op) -> crash points passed by a clean run


def dry_run(world, initial, config, op):
    key = (initial[0], config[0], op[0], world.plugin_dir)
    if key not in DRY:
        world.reset(initial)
        world.write_config(config[1])
        trace = os.path.join(world.workdir, "trace")
        if os.path.exists(trace):
            os.remove(trace)
        rc, out, err = world.octosql(op[1], {"VERIF_TRACE": trace})
        pts = [l.split()[0] for l in open(trace).read().splitlines()] if os.path.exists(trace) else []
        DRY[key] = (rc, pts, err[-300:])
    return DRY[key]


def tear_sizes(point):
    """Lengths of the file the next write after this point goes to (to aim torn writes)."""
    if point.startswith("extensions.") or point.startswith("install.after_remove_archive") or point.startswith("install.after_register"):
        return 18  # {"simx":"simtest"}
    if point.startswith("repository."):
        return 44  # {"url":"http://verif.local/extra/repo.json"}
    if point.startswith("install.after_download") or point.startswith("install.after_unarchive"):
        return os.path.getsize(os.path.join(os.path.dirname(OCTOSQL), "plugins", "simtest-1.0.0"))
    return os.path.getsize(os.path.join(HTTPROOT, "simtest", "1.0.0.tar.gz"))


def draw_crash(t, points):
    """-> (spec string or None, description)"""
    if not points or t.draw(12) == 0:
        return None, "no crash"
    # biased towards the later steps of the operation (more state is in flight there); the first draw
    # alone decides in enumeration mode, where the second is zero
    pt = points[max(t.draw(len(points)), t.draw(len(points)))]
    if t.draw(2) == 0:
        return pt + ":kill", "kill at " + pt
    size = tear_sizes(pt)
    k = [0, 1, size - 1, size // 2, None][t.weighted(2, 2, 2, 2, 4)]
    if k is None:
        k = t.draw(max(1, size))
    return "%s:tear:%d" % (pt, max(0, k)), "torn write at byte %d after %s" % (max(0, k), pt)


def run_once(r):
    global WORLD
    if WORLD is None or WORLD.workdir != r.workdir:
        WORLD = World(r.workdir)
    w = WORLD
    t = r.tape
    hdr = t.block(8)
    initial = INITIALS[hdr.draw(len(INITIALS))]
    config = CONFIGS[hdr.draw(len(CONFIGS))]
    op = OPS[hdr.draw(len(OPS))]
    second = hdr.chance(1, 4)
    # where plugins live: the default directory, or OCTOSQL_PLUGIN_DIR (also written with a trailing slash)
    w.plugin_dir = [None, None, "pd", "pd/"][hdr.draw(4)]
    attrs = {"op": op[0]}
    installed0 = list(initial[1])

    rc_dry, points, err_dry = dry_run(w, initial, config, op)
    r.log("initial=%s config=%s op=%s plugin_dir=%s (clean run: exit %s, %d crash points)" % (initial[0], config[0], " ".join(op[1]), w.plugin_dir, rc_dry, len(points)))
    r.shape(initial[0], config[0], op[0], w.plugin_dir)
    if rc_dry != 0:
        # e.g. `plugin install` from a config whose constraint no manifest version satisfies: not a scenario
        r.log("clean run fails (%s): not a scenario" % err_dry.strip()[-120:])
        return
    # what the operation installs
    op_versions = []
    if op[2] is not None:
        op_versions = [op[2]]
    elif op[0] == "install_from_config":
        inst = list(installed0)
        for name, c in config[1]:
            if resolve(inst, c) is None:
                v = resolve(VERSIONS, c)
                if v:
                    inst.append(v)
                    op_versions.append(v)

    w.reset(initial)
    w.write_config(config[1])
    crashes = []
    completed = False
    trace = os.path.join(w.workdir, "trace")
    for attempt in range(2 if second else 1):
        spec, desc = draw_crash(t.block(7), points)
        if os.path.exists(trace):
            os.remove(trace)
        extra = {"VERIF_TRACE": trace}
        if spec:
            extra["VERIF_CRASH"] = spec
        rc, out, err = w.octosql(op[1], extra)
        fired = ""
        if os.path.exists(trace):
            for l in open(trace).read().splitlines():
                parts = l.split()
                if len(parts) > 1:
                    fired = parts[0] + ":" + parts[1]
        r.log("attempt %d: %s -> exit %s%s" % (attempt + 1, desc, rc, (" (fired %s)" % fired) if fired else ""))
        crashes.append(desc)
        if rc is None:
            r.violate("C27", "hang", attrs, "the operation did not terminate")
            return
        if fired:
            r.fault("crash_kill" if fired.endswith(":kill") else "crash_torn_write")
            r.probe("fired:" + fired.split("#")[0] + (":kill" if fired.endswith("kill") else ":tear"))
        if rc == 0:
            completed = True
            break
        if rc > 0 and rc < 128 and not fired:
            r.infra("operation failed without an injected crash: rc=%s %s" % (rc, err[-300:]))
            return
    r.sched(*crashes)
    r.nontrivial = True
    r.events = len(points)
    for line in w.listing():
        r.log("  disk: " + line)

    # ---- recovery: faults have stopped ----
    dbs = config[1]
    prev = {name: resolve(installed0, c) for name, c in dbs}
    after_done = {name: resolve(installed0 + op_versions, c) for name, c in dbs}
    all_resolvable_before = all(v is not None for v in prev.values())
    cause = {"attrs": dict(attrs, completed=str(completed).lower())}

    def query_db(name):
        rc, out, err = w.octosql(["SELECT * FROM %s.t" % name, "-o", "json"])
        vers = set()
        if rc == 0:
            for line in out.splitlines():
                try:
                    vers.add(json.loads(line)["version"])
                except Exception:
                    vers.add("<garbage:%s>" % line[:40])
        return rc, vers, err.strip()[-300:]

    if all_resolvable_before:
        for args, what in ((["SELECT * FROM range(start=>0, end=>2) r", "-o", "json"], "a plain query"),
                           (["SELECT * FROM range(start=>0, end=>2) r", "--describe"], "--describe")):
            rc, out, err = w.octosql(args)
            r.log("recovery: %s -> exit %s %s" % (what, rc, err.strip()[-160:]))
            if rc != 0:
                r.violate("C27", "does_not_start", cause["attrs"], "after %s, octosql no longer starts (%s exits %s): %s" % ("; ".join(crashes), what, rc, err.strip()[-300:]))
                return
    for name, c in dbs:
        if prev[name] is None:
            continue
        rc, vers, err = query_db(name)
        allowed = {prev[name], after_done[name]}
        r.log("recovery: SELECT * FROM %s.t -> exit %s versions=%s" % (name, rc, sorted(vers)))
        if rc != 0:
            r.violate("C27", "database_broken", cause["attrs"], "after %s, database %s (constraint %s, resolved to %s before) no longer runs: %s" % ("; ".join(crashes), name, c, prev[name], err))
            return
        if not vers <= allowed or not vers:
            r.violate("C27", "wrong_version", cause["attrs"], "database %s answers with versions %s, allowed %s" % (name, sorted(vers), sorted(allowed)))
            return
        if completed and vers != {after_done[name]}:
            r.violate("C27", "not_new_version", cause["attrs"], "the operation completed but database %s answers with %s, expected %s" % (name, sorted(vers), after_done[name]))
            return
    rc, out, err = w.octosql(["plugin", "install"])
    r.log("recovery: plugin install (from config) -> exit %s %s" % (rc, err.strip()[-200:]))
    if rc != 0:
        r.violate("C27", "install_does_not_recover", cause["attrs"], "after %s, `octosql plugin install` exits %s: %s" % ("; ".join(crashes), rc, err.strip()[-300:]))
        return
    for name, c in dbs:
        if resolve(VERSIONS, c) is None:
            continue
        rc, vers, err = query_db(name)
        r.log("after recovery install: %s.t -> exit %s versions=%s" % (name, rc, sorted(vers)))
        if rc != 0 or len(vers) != 1 or not all(v in VERSIONS and satisfies(v, c) for v in vers):
            r.violate("C27", "not_recovered", cause["attrs"], "after the recovery install database %s (constraint %s) gives exit %s versions %s: %s" % (name, c, rc, sorted(vers), err))
            return
    if op[0] == "repository_add" and completed:
        rc, out, err = w.octosql(["plugin", "install", "extra/other"])
        rc2, out2, err2 = w.octosql(["SELECT * FROM other.t", "-o", "json"])
        r.log("added repository: install extra/other -> %s, query -> %s" % (rc, rc2))
        if rc != 0 or rc2 != 0:
            r.violate("C27", "repository_unusable", cause["attrs"], "the repository was added but its plugin cannot be installed/run: %s %s" % (err.strip()[-200:], err2.strip()[-200:]))


ENUM_POINTS, ENUM_MODES = 18, 5
ENUM_PDIRS = 1  # the enumeration uses the default plugin directory; OCTOSQL_PLUGIN_DIR variants are sampled
QUICK_CORE = 2 * 3 * ENUM_POINTS + ENUM_POINTS
ENUM_TOTAL = len(INITIALS) * len(CONFIGS) * len(OPS) * ENUM_POINTS * ENUM_MODES * ENUM_PDIRS


def enumerate_tape(run, tier):
    """Thorough tier: the first ENUM_TOTAL runs walk (initial state x config x operation) x crash point x
    {kill, torn write at byte 0, 1, middle, last} systematically; the tape is prefilled accordingly
    (indices beyond a template's crash points wrap around). Later runs are seeded-random."""
    if tier == "quick":
        # the quick tier walks a core of the same enumeration before it samples: an upgrade or reinstall
        # over an installed, configured v1, killed at every crash point in turn
        if run >= QUICK_CORE:
            return None
        if run >= 2 * 3 * ENUM_POINTS:
            # ... and the first install of another plugin next to it
            return [1, 1, 5, 0, 0, 0, 0, 0] + [1, (run - 2 * 3 * ENUM_POINTS) % ENUM_POINTS, 0, 0, 0, 0, 0]
        e = run
        cfg, e = [1, 3][e % 2], e // 2
        op, e = e % 3, e // 3
        pt = e % ENUM_POINTS
        return [1, cfg, op, 0, 0, 0, 0, 0] + [1, pt, 0, 0, 0, 0, 0]
    if tier != "thorough" or run >= ENUM_TOTAL:
        return None
    e = run
    ini, e = e % len(INITIALS), e // len(INITIALS)
    cfg, e = e % len(CONFIGS), e // len(CONFIGS)
    op, e = e % len(OPS), e // len(OPS)
    pt, e = e % ENUM_POINTS, e // ENUM_POINTS
    mode, e = e % ENUM_MODES, e // ENUM_MODES
    pdir = [0, 3][e % ENUM_PDIRS]
    hdr = [ini, cfg, op, 0, pdir, 0, 0, 0]
    if mode == 0:
        crash = [1, pt, 0, 0, 0, 0, 0]           # kill
    else:
        crash = [1, pt, 0, 1, [0, 2, 6, 4][mode - 1], 0, 0]  # tear at byte 0 / 1 / middle / last
    return hdr + crash


if __name__ == "__main__":
    try:
        simlib.worker_main("c27", run_once, tape_for_run=enumerate_tape)
    finally:
        shutil.rmtree(SHORT_TMP, ignore_errors=True)
