#!/usr/bin/env python3
"""C29 (process tier): the real octosql binary built with the Go race detector, reading stdin (the
preview/replay reader, fed through a pipe in tape-chosen chunks), joining files (two input goroutines,
the shared JSON parser pool, the shared regexp caches), stopped early by LIMIT or by a malformed row.
Scheduling is the operating system's here - monitored, not scheduled (the in-process part of C29 is
the scheduled one); a scenario is executed up to three times and the first race report counts.
Oracle: no "WARNING: DATA RACE" on stderr; the process ends within 60 s."""
import json, os, re, subprocess, sys, time

sys.path.insert(0, os.path.dirname(os.path.abspath(__file__)))
import simlib

OCTOSQL = os.environ.get("VERIF_OCTOSQL_RACE", "/verif/.build/octosql.race")


def write_rows(path, kind, n, bad=-1):
    with open(path, "w") as f:
        if kind == "csv":
            f.write("id,g,s\n")
        for i in range(n):
            g, s = "g%d" % (i % 3), "v%da" % i
            if kind == "json":
                line = json.dumps({"id": i, "g": g, "s": s})
                if i == bad:
                    line = line[:-1] + " oops"
            else:
                line = "%d,%s,%s" % (i, g, s)
                if i == bad:
                    line += ",extra"
            f.write(line + "\n")


def run_once(r):
    t = r.tape
    hdr = t.block(16)
    scen = hdr.weighted(3, 3, 3, 2, 2)  # stdin alone, stdin JOIN file, file JOIN file with patterns, LOOKUP JOIN (nested pool), subquery
    kind = ["json", "csv"][hdr.weighted(3, 1)]
    n = hdr.pick([3, 70, 130, 400, 1500])
    m = hdr.pick([2, 65, 300])
    stop = hdr.weighted(3, 2, 2)  # run to the end, LIMIT, malformed row
    limit = hdr.pick([1, 3, 50])
    bad_at = hdr.draw(1000)
    chunk = hdr.pick([1, 100, 4096, 65536])
    procs = hdr.pick([2, 4, 8])
    pat = hdr.pick(["LIKE '%a'", "~ '^v[0-9]+a$'", "~* 'V.*A'"])
    bad = bad_at % n if stop == 2 else -1
    if bad >= 0 and bad < 100:
        bad = min(n - 1, bad + 100) if n > 100 else bad  # beyond the schema preview where the file is long enough
    a, b = "c29a." + kind, "c29b." + kind
    use_stdin = scen in (0, 1)
    write_rows(os.path.join(r.workdir, a), kind, n, bad)
    write_rows(os.path.join(r.workdir, b), kind, m)
    A = ("stdin." + kind) if use_stdin else a
    if scen == 0:
        sql = "SELECT x.id, x.s FROM %s x WHERE x.s %s" % (A, pat)
    elif scen in (1, 2):
        sql = "SELECT x.id, y.id FROM %s x JOIN %s y ON x.g = y.g WHERE x.s %s AND y.s %s" % (A, b, pat, pat)
    elif scen == 3:
        sql = "SELECT x.id, y.id FROM %s x LOOKUP JOIN %s y ON x.g = y.g" % (A, b)
    else:
        sql = "SELECT x.id FROM %s x WHERE x.g IN (SELECT y.g FROM %s y WHERE y.s %s) AND x.s %s" % (A, b, pat, pat)
    if stop == 1:
        sql += " LIMIT %d" % limit
    attrs = {"scenario": ["stdin", "stdin_join", "file_join", "lookup_join", "subquery"][scen], "source": kind,
             "stop": ["end", "limit", "malformed_row"][stop]}
    r.log("sql: %s  [n=%d m=%d chunk=%d GOMAXPROCS=%d bad=%d]" % (sql, n, m, chunk, procs, bad))
    r.shape(scen, kind, n, m, stop, limit, chunk, procs, pat)
    r.sched(sql, bad)
    r.nontrivial = True
    home = os.path.join(r.workdir, "home")
    os.makedirs(home, exist_ok=True)
    env = {"HOME": home, "OCTOSQL_NO_TELEMETRY": "1", "PATH": os.environ.get("PATH", ""), "XDG_CONFIG_HOME": home + "/.xc",
           "XDG_DATA_HOME": home + "/.xd", "XDG_CACHE_HOME": home + "/.xh", "GOMAXPROCS": str(procs), "GORACE": "halt_on_error=0 exitcode=0 atexit_sleep_ms=0"}
    data = open(os.path.join(r.workdir, a), "rb").read()
    for attempt in range(3):
        err_path = os.path.join(r.workdir, "stderr")
        with open(os.devnull, "wb") as fo, open(err_path, "wb") as fe:
            p = subprocess.Popen([OCTOSQL, sql, "-o", "json"], stdin=subprocess.PIPE if use_stdin else subprocess.DEVNULL,
                                 stdout=fo, stderr=fe, env=env, cwd=r.workdir)
            deadline = time.time() + 60
            if use_stdin:
                try:
                    for pos in range(0, len(data), chunk if chunk > 1 else 1):
                        if pos > 300 * chunk:
                            os.write(p.stdin.fileno(), data[pos:])
                            break
                        os.write(p.stdin.fileno(), data[pos:pos + chunk])
                except BrokenPipeError:
                    pass
                try:
                    p.stdin.close()
                except BrokenPipeError:
                    pass
            try:
                rc = p.wait(timeout=max(1, deadline - time.time()))
            except subprocess.TimeoutExpired:
                p.kill()
                p.wait()
                r.violate("C29", "no_termination", attrs, "octosql (race build) did not end within 60 s: %s" % sql)
                return
        err = open(err_path, "rb").read().decode("utf-8", "replace")
        r.events += 1
        if "WARNING: DATA RACE" in err:
            frames = re.findall(r"^\s+(github\.com/cube2222/octosql/[^\s(]+)", err, re.M)
            r.note("race report (attempt %d):\n%s" % (attempt + 1, err[:3000]))
            if not frames:
                r.note("no octosql frame in the report: third-party code only")
                r.probe("race_outside_octosql")
                continue
            r.violate("C29", "data_race", attrs, "the race detector reported a data race in the real binary running: %s" % sql)
            return
        if stop == 2 and rc == 0 and scen != 3:
            r.probe("malformed_row_not_reached")
    r.log("no race report in 3 executions")


if __name__ == "__main__":
    simlib.worker_main("c29cli", run_once)
