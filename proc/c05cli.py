#!/usr/bin/env python3
"""C05 (process tier): the real octosql binary - cobra flags, config, RunE as compiled, real csv/json
files, the real parser pool - over LIMIT / ORDER BY queries in every output mode and nesting.
The in-process part (sim/c05.go) decides the interleavings; here the scheduling is the operating
system's (monitored, not scheduled), and what is added is that nothing between the command line and
stdout is a copy. Oracle: the printed rows are exactly min(n, rows) rows of the reference result,
in sort order / the first n of the sort order under ORDER BY."""
import csv, io, json, os, re, subprocess, sys

sys.path.insert(0, os.path.dirname(os.path.abspath(__file__)))
import simlib

OCTOSQL = os.environ.get("VERIF_OCTOSQL", "/verif/.build/octosql")
MODES = ["live_table", "batch_table", "csv", "json", "stream_native"]
ANSI = re.compile("\x1b\\[[0-9;]*[A-Za-z]")


def write_table(path, kind, rows):
    with open(path, "w") as f:
        if kind == "csv":
            f.write("k,v,id\n")
            for k, v, i in rows:
                f.write("%s,%d,%s\n" % (k, v, i))
        else:
            for k, v, i in rows:
                f.write(json.dumps({"k": k, "v": v, "id": i}) + "\n")


def gen_rows(t, prefix, max_rows, min_rows=0):
    rows = []
    n = t.draw(max_rows + 1)
    if min_rows > n:
        n = min_rows
    for i in range(n):
        b = t.block(4)
        if rows and b.draw(5) == 0:
            rows.append(rows[b.draw(len(rows))])
            continue
        rows.append(("k%d" % (1 + b.draw(3)), b.draw(4), "%s%d" % (prefix, i)))
    return rows


def cell(s, quoted):
    if quoted:
        if s == "<null>":
            return None
        if len(s) >= 2 and s[0] == "'" and s[-1] == "'":
            return s[1:-1]
    elif s == "":
        return None
    try:
        return int(s)
    except ValueError:
        pass
    try:
        f = float(s)
        if f == int(f):
            return int(f)
    except ValueError:
        pass
    if quoted:
        raise ValueError("cell %r" % s)
    return s


def decode(mode, cols, text):
    """-> list of (row tuple, is_retraction)"""
    out = []
    if mode == "json":
        for line in text.splitlines():
            if not line:
                continue
            o = json.loads(line)
            if sorted(o) != sorted(cols):
                raise ValueError("json fields %s, want %s" % (sorted(o), cols))
            row = []
            for c in cols:
                v = o[c]
                if isinstance(v, float) and v == int(v):
                    v = int(v)
                row.append(v)
            out.append((tuple(row), False))
    elif mode == "csv":
        recs = list(csv.reader(io.StringIO(text)))
        if not recs or recs[0] != cols:
            raise ValueError("csv header %s, want %s" % (recs[:1], cols))
        for rec in recs[1:]:
            out.append((tuple(cell(x, False) for x in rec), False))
    elif mode == "stream_native":
        for line in text.splitlines():
            if not line or line.startswith("{~"):
                continue
            m = re.match(r"^\{([+-])[^|]*\| (.*) \|\}$", line)
            if not m:
                raise ValueError("stream_native line %r" % line)
            body = m.group(2)
            out.append((tuple(cell(x, True) for x in body.split(", ")) if body else (), m.group(1) == "-"))
    else:
        lines = [l.rstrip() for l in ANSI.sub("", text).splitlines()]
        lines = [l for l in lines if l and not l.startswith("watermark:")]
        n = len(lines)
        if n < 4 or not lines[-1].startswith("+"):
            raise ValueError("table: no closing border in %r" % text[-300:])
        i = n - 2
        while i >= 0 and lines[i].startswith("|"):
            i -= 1
        if i < 2 or not lines[i].startswith("+") or not lines[i - 1].startswith("|") or not lines[i - 2].startswith("+"):
            raise ValueError("table: malformed block in %r" % text[-300:])
        split = lambda l: [c.strip() for c in l.strip("|").split("|")]
        if split(lines[i - 1]) != cols:
            raise ValueError("table header %s, want %s" % (split(lines[i - 1]), cols))
        for l in lines[i + 1:n - 1]:
            out.append((tuple(cell(c, True) for c in split(l)), False))
    for row, _ in out:
        if len(row) != len(cols):
            raise ValueError("a row has %d values, want %d" % (len(row), len(cols)))
    return out


def sort_key(row, ord_):
    # NULL first, ints numerically, strings bytewise; DESC handled by the caller through cmp
    return [(0, 0) if row[c] is None else (1, row[c]) for c, _ in ord_]


def cmp_rows(a, b, ord_):
    for c, desc in ord_:
        x = (0, 0) if a[c] is None else (1, a[c])
        y = (0, 0) if b[c] is None else (1, b[c])
        if x != y:
            r = -1 if x < y else 1
            return -r if desc else r
    return 0


def sorted_keys(rows, ord_):
    import functools
    rs = sorted(rows, key=functools.cmp_to_key(lambda a, b: cmp_rows(a, b, ord_)))
    return [tuple(r[c] for c, _ in ord_) for r in rs]


def run_once(r):
    t = r.tape
    hdr = t.block(24)
    kind = ["csv", "json"][hdr.draw(2)]
    shape = hdr.weighted(3, 3, 5, 2, 2)  # single, inner join, outer join, distinct, LOOKUP JOIN over a LIMIT subquery
    outer_kind = hdr.draw(3)
    mode = hdr.pick(MODES)
    nest = hdr.weighted(5, 3, 2, 2, 2)  # top, subquery, subquery + outer limit, with, order only
    has_order = hdr.chance(1, 2)
    ord_draw = [(hdr.draw(5), hdr.draw(2)), (hdr.draw(5), hdr.draw(2))]
    n_ord = 1 + hdr.draw(2)
    limits = [0, 1, 2, 3, 4, 6, 9, 100]
    n, n2 = hdr.pick(limits), hdr.pick(limits)
    optimize = hdr.chance(2, 3)
    big = hdr.chance(1, 6)  # a long right table: the left input is certainly ahead of its partners
    max_rows = 6
    # a JSON file without rows has no columns at all (the query would not typecheck): at least one row there
    L = gen_rows(t.block(4 * max_rows + 2), "l", max_rows, 1 if kind == "json" else 0)
    R = gen_rows(t.block(4 * max_rows + 2), "r", max_rows, 1 if kind == "json" else 0) if shape in (1, 2, 4) else []
    if shape == 4:
        nest, big = 5, False
    if big and R:
        R = [("z%d" % i, 0, "f%d" % i) for i in range(400)] + R
    lf, rf = "c05l." + kind, "c05r." + kind
    write_table(os.path.join(r.workdir, lf), kind, L)
    write_table(os.path.join(r.workdir, rf), kind, R)

    want = []
    if shape == 0:
        base = "SELECT l.k AS a, l.v AS b, l.id AS c FROM %s l" % lf
        cols = ["a", "b", "c"]
        want = list(L)
    elif shape in (1, 2):
        kw = "JOIN" if shape == 1 else ["LEFT JOIN", "RIGHT JOIN", "OUTER JOIN"][outer_kind]
        base = "SELECT l.k AS a, l.v AS b, l.id AS c, r.v AS d, r.id AS e FROM %s l %s %s r ON l.k = r.k" % (lf, kw, rf)
        cols = ["a", "b", "c", "d", "e"]
        rmatched = [False] * len(R)
        for lr in L:
            m = False
            for i, rr in enumerate(R):
                if lr[0] == rr[0]:
                    m = True
                    rmatched[i] = True
                    want.append((lr[0], lr[1], lr[2], rr[1], rr[2]))
            if not m and shape == 2 and outer_kind in (0, 2):
                want.append((lr[0], lr[1], lr[2], None, None))
        if shape == 2 and outer_kind in (1, 2):
            for i, rr in enumerate(R):
                if not rmatched[i]:
                    want.append((None, None, None, rr[1], rr[2]))
    elif shape == 4:
        # the LIMIT subquery is the joined side: run once per outer record, the first n rows of r every time
        base = "SELECT l.k AS a, l.v AS b, l.id AS c, x.v AS d, x.id AS e FROM %s l LOOKUP JOIN (SELECT * FROM %s r LIMIT %d) x ON l.k = x.k" % (lf, rf, n)
        cols = ["a", "b", "c", "d", "e"]
        for lr in L:
            for rr in R[:n]:
                if lr[0] == rr[0]:
                    want.append((lr[0], lr[1], lr[2], rr[1], rr[2]))
    else:
        base = "SELECT DISTINCT l.k AS a, l.v AS b FROM %s l" % lf
        cols = ["a", "b"]
        want = sorted(set((k, v) for k, v, _ in L))
    ord_ = []
    if (has_order or nest == 4) and nest != 5:
        for c, dsc in ord_draw[:n_ord]:
            c %= len(cols)
            if c not in [o[0] for o in ord_]:
                ord_.append((c, dsc == 1))
    osql = (" ORDER BY " + ", ".join(cols[c] + (" DESC" if d else "") for c, d in ord_)) if ord_ else ""
    expect = len(want)
    top_ordered = False
    if nest == 0:
        sql, expect, top_ordered = "%s%s LIMIT %d" % (base, osql, n), min(n, expect), bool(ord_)
    elif nest == 1:
        sql, expect = "SELECT * FROM (%s%s LIMIT %d) x" % (base, osql, n), min(n, expect)
    elif nest == 2:
        sql, expect = "SELECT * FROM (%s%s LIMIT %d) x LIMIT %d" % (base, osql, n, n2), min(n2, n, expect)
    elif nest == 3:
        sql, expect = "WITH x AS (%s%s LIMIT %d) SELECT * FROM x x" % (base, osql, n), min(n, expect)
    elif nest == 5:
        sql = base
    else:
        sql, top_ordered = base + osql, True
    attrs = {"mode": mode, "source": kind, "shape": ["single", "inner_join", "outer_join", "distinct", "lookup_join_limit_subquery"][shape],
             "nest": ["top", "subquery", "subquery_outer_limit", "with", "order_only", "joined_side"][nest]}
    r.log("sql: %s  [-o %s, optimize=%s]" % (sql, mode, optimize))
    r.log("l: %s" % (L,))
    r.log("r: %s%s" % ("400 filler rows + " if big and R else "", R[-max_rows:] if big else R))
    r.shape(kind, shape, outer_kind, mode, nest, len(ord_), n, n2, optimize, big, len(L), len(R))
    r.sched(sql, str(L), str(R[-max_rows:]))
    r.nontrivial = len(L) + len(R) >= 2

    home = os.path.join(r.workdir, "home")
    os.makedirs(os.path.join(home, ".octosql"), exist_ok=True)
    open(os.path.join(home, ".octosql", "octosql.yml"), "w").write("")
    env = {"HOME": home, "OCTOSQL_NO_TELEMETRY": "1", "PATH": os.environ.get("PATH", ""),
           "XDG_CONFIG_HOME": home + "/.xc", "XDG_DATA_HOME": home + "/.xd", "XDG_CACHE_HOME": home + "/.xh", "GOMAXPROCS": "4"}
    args = [OCTOSQL, sql, "-o", mode]
    if not optimize:
        args.append("--optimize=false")
    try:
        p = subprocess.run(args, env=env, cwd=r.workdir, capture_output=True, timeout=60)
    except subprocess.TimeoutExpired:
        r.violate("C05", "hang", attrs, "octosql did not terminate within 60s: %s -o %s" % (sql, mode))
        return
    text = p.stdout.decode("utf-8", "replace")
    r.log("exit=%d" % p.returncode)
    # not hashed: without a top-level ORDER BY the order of the printed rows is the operating system's schedule
    r.note("stdout:\n%s" % ANSI.sub("", text)[-1500:])
    if p.returncode != 0:
        err = simlib.norm_err(p.stderr.decode("utf-8", "replace")).strip()
        if "couldn't run query" in err or "panic" in err:
            r.violate("C05", "run_error", attrs, "query failed on valid input: %s" % err[-300:])
        else:
            r.infra("query did not plan: %s (%s)" % (err[-300:], sql))
        return
    try:
        printed = decode(mode, cols, text)
    except Exception as e:  # noqa
        r.violate("C05", "unreadable_output", attrs, "%s" % e)
        return
    r.events = len(printed)
    got = {}
    saw_retr = False
    for row, retr in printed:
        got[row] = got.get(row, 0) + (-1 if retr else 1)
        saw_retr = saw_retr or retr
    if any(c < 0 for c in got.values()):
        r.violate("C05", "negative_multiplicity", attrs, "a row is retracted more often than printed: %s" % got)
        return
    rows = [row for row, retr in printed if not retr] if not saw_retr else [row for row, c in sorted(got.items(), key=str) for _ in range(c)]
    if saw_retr:
        r.probe("stream_native_printed_retractions")
    if len(rows) < len(want):
        r.probe("limit_cut_rows")
    if len(rows) != expect:
        r.violate("C05", "row_count", attrs, "%d rows printed, want min(limit, %d result rows) = %d; printed %s" % (len(rows), len(want), expect, rows[:8]))
        return
    wc = {}
    for w in want:
        wc[tuple(w)] = wc.get(tuple(w), 0) + 1
    gc = {}
    for row in rows:
        gc[row] = gc.get(row, 0) + 1
    for row, c in gc.items():
        if c > wc.get(row, 0):
            r.violate("C05", "not_a_result_row", attrs, "row %s printed %d times but occurs %d times in the result" % (row, c, wc.get(row, 0)))
            return
    if not ord_:
        return
    if top_ordered and not saw_retr:
        for i in range(1, len(rows)):
            if cmp_rows(rows[i - 1], rows[i], ord_) > 0:
                r.violate("C05", "not_sorted", attrs, "row %d %s printed before %s" % (i - 1, rows[i - 1], rows[i]))
                return
    wk, gk = sorted_keys([tuple(w) for w in want], ord_), sorted_keys(rows, ord_)
    if nest in (0, 1, 3, 4):
        if gk != wk[:len(gk)]:
            r.violate("C05", "not_first_n", attrs, "sort keys of the printed rows %s, first %d of the sort order are %s" % (gk, len(gk), wk[:len(gk)]))
    elif nest == 2:
        first = {}
        for k in wk[:n]:
            first[k] = first.get(k, 0) + 1
        for k in gk:
            first[k] = first.get(k, 0) - 1
            if first[k] < 0:
                r.violate("C05", "not_first_n", attrs, "a printed row has sort key %s, not among the first %d of the sort order %s" % (k, n, wk[:n]))
                return


if __name__ == "__main__":
    simlib.worker_main("c05cli", run_once)
