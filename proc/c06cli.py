#!/usr/bin/env python3
"""C06 (process tier): the real octosql binary over generated files with one injected fault per run
(read error through the verif disk hook, malformed row, over-long line, panic() at a row) under a
query shape and an output mode. A query that has to consume the faulty part must exit non-zero with
an error message; exit 0 is only acceptable with exactly the stdout of the fault-free twin."""
import json, os, subprocess, sys

sys.path.insert(0, os.path.dirname(os.path.abspath(__file__)))
import simlib

OCTOSQL = os.environ.get("VERIF_OCTOSQL", "/verif/.build/octosql")
SHAPES = ["none", "where", "distinct", "order_by", "group_by", "join", "in_subquery", "scalar_subquery", "limit_small", "order_by_limit", "count_star",
          "expr_over_limit", "watermark_group_by"]
MODES = ["json", "csv", "batch_table", "stream_native"]


def write_table(path, kind, rows, bad=-1, fault="", long_len=0):
    out = []
    if kind == "csv":
        out.append("id,g,s")
    for i in range(rows):
        g, s = i % 3, "v%d" % i
        if i == bad and fault == "long":
            s = "L" * long_len
        if kind == "json":
            line = '{"id":%d,"g":%d,"s":"%s","t":"2021-01-01T00:%02d:%02dZ"}' % (i, g, s, i // 60, i % 60)
            if i == bad and fault == "malformed":
                line = line[:-1] + " oops"
        elif kind == "csv":
            line = "%d,%d,%s" % (i, g, s)
            if i == bad and fault == "malformed":
                line = line + ",extra" if i % 2 == 0 else '%d,%d,bare"quote' % (i, g)
        else:
            line = s
        out.append(line)
    data = "\n".join(out) + "\n"
    open(path, "w").write(data)
    return len(data)


def run_once(r):
    t = r.tape
    hdr = t.block(16)
    kind = ["json", "csv", "lines"][hdr.weighted(4, 3, 2)]
    shape = hdr.pick(SHAPES)
    mode = hdr.pick(MODES)
    if shape == "watermark_group_by" and kind != "json":
        shape = "group_by"  # the time column is an RFC 3339 string in a JSON file
    slack = hdr.draw(4)
    if shape == "scalar_subquery" and mode == "csv":
        mode = "json"  # the csv formatter cannot print a list value at all (an input/formatter matter, C25/C07)
    n_main = hdr.pick([3, 8, 40, 130])
    n_sub = hdr.pick([2, 5, 120])
    fault = hdr.pick(["read_error", "malformed_row", "long_line", "panic_expr"])
    if kind == "lines" and fault == "malformed_row":
        fault = "long_line"
    if kind == "csv" and fault == "long_line":
        fault = "malformed_row"
    two = shape in ("join", "in_subquery", "scalar_subquery")
    on_sub = two and hdr.chance(1, 2)
    optimize = hdr.chance(2, 3)
    pos = hdr.draw(1000)
    max_line = hdr.pick([64, 100, 200])
    rows = n_sub if on_sub else n_main
    bad = pos % rows
    if shape == "watermark_group_by" and pos % 2 == 0:
        bad = max(0, rows - 2 - (pos // 2) % 4)  # near the end: the end-of-stream release covers the last few event times
    if shape == "join" and on_sub and kind == "lines":
        # unoptimised, the filter sits above the join: the failing row must have a join partner to be evaluated
        bad = pos % min(n_main, n_sub)
    if two and not on_sub:
        bad = pos % min(n_main, n_sub) if kind == "lines" else bad - bad % 3
    lit = (lambda i: "%d.0" % i) if kind == "json" else (lambda i: str(i))
    cols = {"m": ("m.number", "m.number", "m.text"), "x": ("x.number", "x.number", "x.text")} if kind == "lines" else \
        {"m": ("m.id", "m.g", "m.s"), "x": ("x.id", "x.g", "x.s")}
    mfile, xfile = "c06main." + kind, "c06sub." + kind
    tgt = "x" if on_sub else "m"

    def build(with_panic):
        mw = xw = ""
        if with_panic:
            term = "(%s < %s OR panic(%s) = 'q')" % (cols[tgt][0], lit(bad), cols[tgt][2])
            if tgt == "m":
                mw = term
            else:
                xw = term
        AND = lambda a, b: a if not b else (b if not a else a + " AND " + b)
        W = lambda w: " WHERE " + w if w else ""
        mid, mg, ms = cols["m"]
        xid, xg, xs = cols["x"]
        M, X = mfile + " m", xfile + " x"
        if shape == "expr_over_limit":
            sel = mw.replace("m.", "x.") + " AS p" if mw else mid.replace("m.", "x.")
            return "SELECT %s FROM (SELECT * FROM %s LIMIT %d) x" % (sel, M, bad + 1 + slack)
        if shape == "watermark_group_by":
            only = lambda col: "(%s < %s OR %s > %s OR panic('boom') = 'q')" % (col, lit(bad), col, lit(bad))
            w = "WITH w AS (SELECT * FROM max_diff_watermark(source=>TABLE(%s), max_diff=>INTERVAL 5 SECONDS, time_field=>DESCRIPTOR(t)) c) " % mfile
            if slack % 2 == 0:
                return w + "SELECT t, COUNT(%s) AS cnt FROM w GROUP BY t TRIGGER ON WATERMARK" % (only("id") if with_panic else "id")
            return w + "SELECT g.t, COUNT(%s) AS c2 FROM (SELECT t, MAX(id) AS mx FROM w GROUP BY t TRIGGER ON WATERMARK) g GROUP BY g.t TRIGGER ON WATERMARK" % (only("g.mx") if with_panic else "g.mx")
        return {
            "none": "SELECT %s, %s FROM %s%s" % (mid, ms, M, W(mw)),
            "where": "SELECT %s FROM %s%s" % (mid, M, W(AND(mw, mg + " >= " + lit(0)))),
            "distinct": "SELECT DISTINCT %s FROM %s%s" % (mg, M, W(mw)),
            "order_by": "SELECT %s, %s FROM %s%s ORDER BY %s DESC" % (mid, ms, M, W(mw), mid),
            "group_by": "SELECT %s AS gg, COUNT(*) AS c FROM %s%s GROUP BY %s" % (mg, M, W(mw), mg),
            "join": "SELECT %s, %s FROM %s JOIN %s ON %s = %s%s" % (mid, xid, M, X, mg, xg, W(AND(mw, xw))),
            "in_subquery": "SELECT %s FROM %s WHERE %s" % (mid, M, AND(mw, "%s IN (SELECT %s FROM %s%s)" % (mg, xg, X, W(xw)))),
            "scalar_subquery": "SELECT %s, (SELECT %s FROM %s%s) AS sub FROM %s%s" % (mid, xg, X, W(xw), M, W(mw)),
            "limit_small": "SELECT %s FROM %s%s LIMIT 2" % (mid, M, W(mw)),
            "order_by_limit": "SELECT %s FROM %s%s ORDER BY %s LIMIT 3" % (mid, M, W(mw), mid),
            "count_star": "SELECT COUNT(*) AS c FROM %s%s" % (M, W(mw)),
        }[shape]

    attrs = {"source": kind, "shape": shape, "fault": fault, "output": mode}
    home = os.path.join(r.workdir, "home")
    os.makedirs(os.path.join(home, ".octosql"), exist_ok=True)
    cfg_path = os.path.join(home, ".octosql", "octosql.yml")

    def octosql(sql, extra_env=None, cfg=""):
        open(cfg_path, "w").write(cfg)
        env = {"HOME": home, "OCTOSQL_NO_TELEMETRY": "1", "PATH": os.environ.get("PATH", ""),
               "XDG_CONFIG_HOME": home + "/.xc", "XDG_DATA_HOME": home + "/.xd", "XDG_CACHE_HOME": home + "/.xh", "GOMAXPROCS": "2"}
        env.update(extra_env or {})
        args = [OCTOSQL, sql, "-o", mode]
        if not optimize:
            args.append("--optimize=false")
        try:
            p = subprocess.run(args, env=env, cwd=r.workdir, capture_output=True, timeout=60)
        except subprocess.TimeoutExpired:
            return None, b"", b"timeout"
        return p.returncode, p.stdout, p.stderr

    write_table(os.path.join(r.workdir, mfile), kind, n_main)
    write_table(os.path.join(r.workdir, xfile), kind, n_sub)
    base_sql = build(False)
    r.log("sql: %s  [-o %s, optimize=%s]" % (base_sql, mode, optimize))
    r.shape(kind, shape, mode, fault, on_sub, n_main, n_sub, optimize)
    r.sched(pos, max_line)
    r.nontrivial = True
    rc0, out0, err0 = octosql(base_sql)
    if rc0 != 0:
        r.infra("fault-free twin failed: rc=%s %s (%s)" % (rc0, simlib.norm_err(err0.decode("utf-8", "replace"))[-300:], base_sql))
        return
    r.events = out0.count(b"\n")
    sql, extra, cfg = base_sql, {}, ""
    tfile = xfile if on_sub else mfile
    if fault == "read_error":
        size = os.path.getsize(os.path.join(r.workdir, tfile))
        k = pos % size
        # the execution-phase open is the second open of that file by the process
        extra = {"VERIF_DISK": "2:0:%d" % k, "VERIF_DISK_PATH": tfile}
        r.log("fault: EIO on %s after %d of %d bytes" % (tfile, k, size))
    elif fault == "malformed_row":
        write_table(os.path.join(r.workdir, tfile), kind, rows, bad, "malformed")
        r.log("fault: malformed row %d in %s" % (bad, tfile))
    elif fault == "long_line":
        n = 70000 if kind == "lines" else max_line + 30
        if kind == "json":
            cfg = "files:\n  json:\n    max_line_size_bytes: %d\n" % max_line
        write_table(os.path.join(r.workdir, tfile), kind, rows, bad, "long", n)
        r.log("fault: row %d of %s is %d bytes long" % (bad, tfile, n))
    else:
        sql = build(True)
        r.log("fault: panic() at row %d: %s" % (bad, sql))
    rc, out, err = octosql(sql, extra, cfg)
    r.fault(fault)
    r.log("faulty run: exit=%s" % ("0" if rc == 0 else ("none" if rc is None else "non-zero")))
    # not hashed: how many rows were printed before the failure, and which of several error paths reported it,
    # is the operating system's schedule of the real binary
    r.note("  exit=%s stdout_lines=%d stderr=%s" % (rc, out.count(b"\n"), simlib.norm_err(err.decode("utf-8", "replace")).strip()[-160:]))
    if rc is None:
        r.violate("C06", "hang", attrs, "octosql did not terminate within 60s after the fault (%s)" % sql)
        return
    if rc != 0:
        if not err.strip():
            r.violate("C06", "no_message", attrs, "non-zero exit %d without an error message (%s)" % (rc, sql))
        return
    consumes_all = shape not in ("limit_small", "expr_over_limit")
    needs_bad_row = shape == "expr_over_limit" and fault != "read_error"  # the faulty row is among the first k the inner LIMIT lets through
    if (consumes_all or needs_bad_row) and not (fault == "read_error" and two and False):
        r.violate("C06", "swallowed", attrs, "the failure was swallowed: exit 0 with %d output lines (fault-free twin: %d lines); %s -o %s" % (out.count(b"\n"), out0.count(b"\n"), sql, mode))
        return
    if fault == "panic_expr" and bad < 2:
        r.violate("C06", "swallowed", attrs, "panic() at row %d was swallowed under LIMIT 2: %s" % (bad, sql))
        return
    if out != out0:
        r.violate("C06", "incomplete_output", attrs, "exit 0 but stdout differs from the fault-free twin's (%d vs %d lines); %s -o %s" % (out.count(b"\n"), out0.count(b"\n"), sql, mode))


if __name__ == "__main__":
    simlib.worker_main("c06cli", run_once)
