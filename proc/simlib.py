"""Process-tier simulator library: the same tape / shrink / worker-summary protocol as
/verif/sim (Go), for checks whose system under test is a real octosql process."""
import hashlib, re, json, os, random, sys, time

MASK = (1 << 64) - 1


def splitmix(x):
    x = (x + 0x9e3779b97f4a7c15) & MASK
    x = ((x ^ (x >> 30)) * 0xbf58476d1ce4e5b9) & MASK
    x = ((x ^ (x >> 27)) * 0x94d049bb133111eb) & MASK
    return x ^ (x >> 31)


def run_seed(seed, check, run):
    h = splitmix(seed & MASK)
    for c in check.encode():
        h = splitmix(h ^ c)
    return splitmix(h ^ (run & MASK)) >> 1


class Tape:
    """Only source of choice of a run. Generate mode draws from a PRNG seeded from
    (VERIF_SEED, check, run); replay mode serves recorded values modulo the bound
    (0 when exhausted). block(n) reserves a fixed window for a sub-generator."""

    def __init__(self, seed=None, replay=None, _core=None, pos=0, limit=-1):
        if _core is None:
            _core = {"buf": list(replay) if replay is not None else [], "drawn": [], "replay": replay is not None,
                     "rng": random.Random(seed), "blocks": []}
        self.c, self.pos, self.limit = _core, pos, limit

    def draw(self, n):
        if n < 1:
            n = 1
        if self.limit >= 0 and self.pos >= self.limit:
            return 0
        c, i = self.c, self.pos
        while len(c["buf"]) <= i:
            c["buf"].append(0)
        while len(c["drawn"]) <= i:
            c["drawn"].append(False)
        if not c["drawn"][i]:
            c["drawn"][i] = True
            if not c["replay"]:
                c["buf"][i] = c["rng"].randrange(n)
        c["buf"][i] %= n
        self.pos += 1
        return c["buf"][i]

    def block(self, n):
        start, end = self.pos, self.pos + n
        if self.limit >= 0 and end > self.limit:
            end = self.limit
        start = min(start, end)
        self.pos = end
        self.c["blocks"].append((start, end))
        return Tape(_core=self.c, pos=start, limit=end)

    def chance(self, num, den):
        return self.draw(den) >= den - num

    def rng(self, lo, hi):
        return lo + self.draw(max(hi, lo) - lo + 1)

    def weighted(self, *w):
        r = self.draw(sum(w))
        for i, x in enumerate(w):
            if r < x:
                return i
            r -= x
        return len(w) - 1

    def pick(self, seq):
        return seq[self.draw(len(seq))]

    def recorded(self):
        c = self.c
        n = min(len(c["buf"]), len(c["drawn"]))
        out = [c["buf"][i] if c["drawn"][i] else 0 for i in range(n)]
        while out and out[-1] == 0:
            out.pop()
        return out


_HEX = re.compile(r"0x[0-9a-fA-F]+\??")
_GOR = re.compile(r"goroutine \d+")
_NUM = re.compile(r"\d{6,}")
_PLUS = re.compile(r" \+0x[0-9a-fA-F]+")


def norm_err(text):
    """stderr of a real binary, made repeatable: a Go panic prints addresses and goroutine ids that differ
    between two executions of the same scenario"""
    text = _GOR.sub("goroutine N", _HEX.sub("0x?", _PLUS.sub("", text)))
    return _NUM.sub("N", text)  # random suffixes of temporary names (.staging/18001517), pids


class Run:
    def __init__(self, check, tier, tape, keep, workdir):
        self.check, self.tier, self.tape, self.keep, self.workdir = check, tier, tape, keep, workdir
        self.verdict, self.violations = "ok", []
        self.faults, self.probes = {}, {}
        self.lines, self.h = [], hashlib.sha256()
        self.shape_parts, self.sched_parts = [], []
        self.nontrivial, self.events, self.sim_time_ns = False, 0, 0
        self.infra_detail = ""

    def thorough(self):
        return self.tier == "thorough"

    def log(self, s):
        self.h.update(s.encode("utf-8", "replace") + b"\xff")
        if self.keep:
            self.lines.append(s)

    def note(self, s):
        """kept in the trace but not hashed: text that legitimately differs between two executions of the
        same tape (goroutine ids and addresses in a race report of the real binary)"""
        if self.keep:
            self.lines.append(s)

    def violate(self, prop, oracle, attrs, detail):
        self.log("VIOLATION %s %s %s: %s" % (prop, oracle, json.dumps(attrs, sort_keys=True), detail))
        if self.verdict == "infra":
            return
        self.verdict = "violation"
        if len(self.violations) < 16:
            self.violations.append({"property": prop, "oracle": oracle, "attrs": attrs, "detail": detail})

    def infra(self, detail):
        self.log("INFRA: " + detail)
        if self.verdict != "infra":
            self.verdict, self.infra_detail = "infra", detail

    def fault(self, k, n=1):
        self.faults[k] = self.faults.get(k, 0) + n

    def probe(self, k, n=1):
        self.probes[k] = self.probes.get(k, 0) + n

    def shape(self, *parts):
        self.shape_parts += [str(p) for p in parts]

    def sched(self, *parts):
        self.sched_parts += [str(p) for p in parts]


def match_known(known, v):
    for k in known:
        if k.get("status") != "open" or k["property"] != v["property"] or k["oracle"] != v["oracle"]:
            continue
        if all(v["attrs"].get(a) == b for a, b in k.get("attrs", {}).items()):
            return k["id"]
    return ""


def primary(known, run):
    if run.verdict != "violation" or not run.violations:
        return None
    for v in run.violations:
        if not match_known(known, v):
            return dict(v, known="")
    v = run.violations[0]
    return dict(v, known=match_known(known, v))


def class_of(v):
    return "%s|%s|%s|%s" % (v["property"], v["oracle"], json.dumps(v["attrs"], sort_keys=True), v["known"])


def load_known(path):
    out = []
    if path and os.path.exists(path):
        for line in open(path):
            line = line.strip()
            if line and not line.startswith("#") and not line.startswith("fixed:"):
                out.append(json.loads(line))
    return out


def shrink(tape, still, budget):
    cur = list(tape)

    def attempt(c):
        nonlocal cur, budget
        if budget <= 0:
            return False
        budget -= 1
        norm = still(c)
        if norm is None:
            return False
        cur = list(norm) if len(norm) <= len(c) else list(c)
        return True

    def trim():
        while cur and cur[-1] == 0:
            cur.pop()

    trim()
    improved = True
    while improved and budget > 0:
        improved = False
        size = 32
        while size >= 1:
            i = 0
            while i < len(cur) and budget > 0:
                if any(cur[i:i + size]):
                    c = list(cur)
                    for j in range(i, min(len(c), i + size)):
                        c[j] = 0
                    if attempt(c):
                        improved = True
                i += size
            size //= 2
        trim()
        i = 0
        while i < len(cur) and budget > 0:
            while i < len(cur) and cur[i] > 0 and budget > 0:
                c = list(cur)
                c[i] = cur[i] // 2
                if attempt(c):
                    improved = True
                    continue
                if cur[i] - 1 != cur[i] // 2:
                    c = list(cur)
                    c[i] = cur[i] - 1
                    if attempt(c):
                        improved = True
                        continue
                break
            i += 1
        trim()
    return cur


def worker_main(check_name, fn, default_tier="quick", tape_for_run=None):
    """fn(run) executes one simulated run. Environment protocol as the Go workers.
    tape_for_run(run_index, tier) may return a prefilled tape (systematic enumeration) or None (seeded PRNG)."""
    env = os.environ
    tier = env.get("VERIF_TIER", default_tier)
    known = load_known(env.get("VERIF_KNOWN", ""))
    workdir = env.get("VERIF_PROC_WORK", os.getcwd())
    scratch = os.path.join(workdir, "proc%d" % os.getpid())
    os.makedirs(scratch, exist_ok=True)

    if env.get("VERIF_REPLAY"):
        tier = json.load(open(env["VERIF_REPLAY"])).get("tier", tier)

    def execute(tape, keep):
        r = Run(check_name, tier, tape, keep, scratch)
        try:
            fn(r)
        except Exception as e:  # harness trouble is never a violation
            import traceback
            r.infra("harness exception: %r\n%s" % (e, traceback.format_exc()[-1500:]))
        return r

    if env.get("VERIF_REPLAY"):
        rf = json.load(open(env["VERIF_REPLAY"]))
        r = execute(Tape(replay=rf["tape"]), True)
        for l in r.lines:
            print("  " + l)
        code = 0
        if r.verdict == "violation":
            v = primary(known, r)
            same = v["oracle"] == rf["oracle"] and r.h.hexdigest()[:16] == rf["trace_hash"]
            print("REPLAY verdict=violation oracle=%s trace_hash=%s identical=%s" % (v["oracle"], r.h.hexdigest()[:16], str(same).lower()))
            print("VIOLATION property=%s replay=%s" % (v["property"], env["VERIF_REPLAY"]))
            code = 1
        elif r.verdict == "infra":
            print("REPLAY verdict=infra " + r.infra_detail)
            code = 2
        else:
            print("REPLAY verdict=ok trace_hash=%s (recorded %s)" % (r.h.hexdigest()[:16], rf["trace_hash"]))
        import shutil
        shutil.rmtree(scratch, ignore_errors=True)
        sys.exit(code)

    seed = int(env.get("VERIF_SEED", "1"))
    lo, hi = int(env.get("VERIF_FROM", "0")), int(env.get("VERIF_TO", "10"))
    out = env.get("VERIF_OUT", "")
    replay_dir = env.get("VERIF_REPLAY_DIR", "")
    max_wall = float(env.get("VERIF_MAX_WALL_S", "0"))
    t0 = time.time()
    summ = {"check": check_name, "tier": tier, "seed": seed, "from": lo, "to": hi, "runs": 0, "nontrivial": 0, "events": 0,
            "sim_time_ns": 0, "faults": {}, "probes": {}, "violations": [], "infra": [], "samples": [], "wall_s": 0, "race": False}
    classes = {}
    hashes = open(out + ".hashes", "w") if out else None
    dump = open(env["VERIF_DUMP_HASHES"], "w") if env.get("VERIF_DUMP_HASHES") else None
    for run in range(lo, hi):
        if max_wall and time.time() - t0 > max_wall:
            summ["infra"].append("watchdog: stopped at run %d" % run)
            break
        keep = len(summ["samples"]) < 3 and run - lo < 3
        pre = tape_for_run(run, tier) if tape_for_run else None
        r = execute(Tape(replay=pre) if pre is not None else Tape(seed=run_seed(seed, check_name, run)), keep)
        summ["runs"] += 1
        if dump:
            dump.write("%d %s %s %d\n" % (run, r.h.hexdigest()[:16], r.verdict, len(r.tape.recorded())))
            dump.flush()
        summ["events"] += r.events
        summ["sim_time_ns"] += r.sim_time_ns
        for k, v in r.faults.items():
            summ["faults"][k] = summ["faults"].get(k, 0) + v
        for k, v in r.probes.items():
            summ["probes"][k] = summ["probes"].get(k, 0) + v
        if r.nontrivial:
            summ["nontrivial"] += 1
            if hashes:
                hashes.write(hashlib.sha256("|".join(r.shape_parts).encode()).hexdigest()[:16] +
                             hashlib.sha256("|".join(r.sched_parts).encode()).hexdigest()[:16] + "\n")
        if keep:
            summ["samples"].append({"run": run, "trace": r.lines})
        if r.verdict == "infra":
            if len(summ["infra"]) < 20:
                summ["infra"].append("run %d: %s" % (run, r.infra_detail))
        elif r.verdict == "violation":
            v = primary(known, r)
            cl = class_of(v)
            if cl in classes:
                classes[cl]["count"] += 1
                continue
            vs = {"class": cl, "property": v["property"], "oracle": v["oracle"], "attrs": v["attrs"], "detail": v["detail"],
                  "known": v["known"], "count": 1, "first_run": run, "replay": ""}
            classes[cl] = vs
            summ["violations"].append(vs)
            if v["known"] or len(classes) > 8:
                continue
            orig = r.tape.recorded()
            attempts = [0]

            def still(c):
                attempts[0] += 1
                r2 = execute(Tape(replay=c), False)
                v2 = primary(known, r2)
                if v2 is None or class_of(v2) != cl:
                    return None
                return r2.tape.recorded()

            mn = shrink(orig, still, int(env.get("VERIF_SHRINK_BUDGET", "60" if tier == "quick" else "300")))
            final = execute(Tape(replay=mn), True)
            fv = primary(known, final)
            if fv is None or class_of(fv) != cl:
                final = execute(Tape(replay=orig), True)
                fv = primary(known, final)
                if fv is None:
                    summ["infra"].append("run %d: violation did not reproduce from its own tape (nondeterminism)" % run)
                    continue
            vs["detail"] = fv["detail"]
            if replay_dir:
                path = os.path.join(replay_dir, "%s-%s-s%d-r%d.json" % (fv["property"], check_name, seed, run))
                json.dump({"property": fv["property"], "check": check_name, "tier": tier, "seed": seed, "run": run, "oracle": fv["oracle"],
                           "attrs": fv["attrs"], "detail": fv["detail"], "known": fv["known"], "trace_hash": final.h.hexdigest()[:16],
                           "tape": final.tape.recorded(), "original_tape_len": len(orig), "shrink_attempts": attempts[0], "trace": final.lines},
                          open(path, "w"), indent=1)
                vs["replay"] = path
    summ["wall_s"] = time.time() - t0
    if hashes:
        hashes.close()
    import shutil
    shutil.rmtree(scratch, ignore_errors=True)
    if out:
        json.dump(summ, open(out + ".summary.json", "w"), indent=1)
    else:
        print(json.dumps(summ, indent=1))
