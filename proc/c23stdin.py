#!/usr/bin/env python3
"""C23 (stdin part): the real octosql binary reads a generated JSON-lines / CSV document from a pipe that the
simulator fills in tape-chosen chunks; the next chunk is written only after the pipe has been drained
(FIONREAD == 0), so the sequence of read(2) results the process sees equals the chunk sequence.
Oracle: -o json output decodes to exactly the document's rows, in order; exit status 0."""
import fcntl, json, os, struct, subprocess, sys, termios, time

sys.path.insert(0, os.path.dirname(os.path.abspath(__file__)))
import simlib

OCTOSQL = os.environ.get("VERIF_OCTOSQL", "/verif/.build/octosql")
STRS = ["", "a", "héllo", "日本語", "q\"uote", "back\\slash", "tab\t", "emoji😀", " lead", "x,y", "'"]


def pipe_pending(fd):
    buf = fcntl.ioctl(fd, termios.FIONREAD, struct.pack("i", 0))
    return struct.unpack("i", buf)[0]


def run_once(r):
    t = r.tape
    hdr = t.block(12)
    fmt = "json" if hdr.draw(3) != 0 else "csv"
    sizes = [1, 2, 3, 50, 99, 100, 101, 130, 260]
    if r.thorough():
        sizes += [1000, 5000]
    n = hdr.pick(sizes)
    pad = hdr.pick([0, 0, 40, 700])  # long rows make the preview read ahead less far in rows
    nchunk_kinds = 1 + hdr.draw(3)
    chunk_sizes = [hdr.pick([1, 7, 64, 100, 1000, 4096, 4097, 65536, 200000]) for _ in range(nchunk_kinds)]
    limit = hdr.pick([None, None, None, 1, 5])
    body = t.block(64)
    rows, lines = [], []
    for i in range(n):
        lt = body.block(4) if i < 16 else simlib.Tape(replay=[i * 7, i * 13, i])
        s = STRS[lt.draw(len(STRS))] + str(i % 10) + "p" * pad
        if fmt == "json":
            obj = {"id": float(i), "s": s, "b": lt.draw(2) == 0}
            rows.append(obj)
            lines.append(json.dumps(obj, ensure_ascii=False))
        else:
            name = "s_" + s.replace("\t", " ")
            q = None if lt.draw(4) == 0 else lt.draw(1000) - 500
            rows.append({"id": i - 3, "name": name, "qty": q})
            field = name
            if any(c in name for c in ',"\n') or name.startswith(" "):
                field = '"' + name.replace('"', '""') + '"'
            lines.append("%d,%s,%s" % (i - 3, field, "" if q is None else q))
    doc = ("\n".join(lines) + "\n")
    if fmt == "csv":
        doc = "id,name,qty\n" + doc
    data = doc.encode()
    sql = "SELECT * FROM stdin.%s s" % fmt
    # the stdin table referenced twice (the schema preview is opened once per reference, the data only once):
    # the first disjunct holds for every row, so the subquery is planned but never needed for the result
    twice = hdr.chance(1, 4)
    if twice:
        sql += " WHERE s.id >= %s OR s.id IN (SELECT b.id FROM stdin.%s b)" % ("-1000.0" if fmt == "json" else "-1000", fmt)
    if limit is not None:
        sql += " LIMIT %d" % limit
    attrs = {"source": "stdin." + fmt}
    r.log("%s: %d rows (%d bytes), chunks=%s" % (sql, n, len(data), chunk_sizes))
    r.shape(fmt, n, pad, chunk_sizes, limit, twice)
    r.sched(hdr.recorded() if False else str(chunk_sizes), hashlib_of(doc))
    r.nontrivial = n >= 2

    home = os.path.join(r.workdir, "home")
    os.makedirs(home, exist_ok=True)
    out_path = os.path.join(r.workdir, "stdout")
    err_path = os.path.join(r.workdir, "stderr")
    env = {"HOME": home, "OCTOSQL_NO_TELEMETRY": "1", "PATH": os.environ.get("PATH", ""), "XDG_CONFIG_HOME": home + "/.xc", "XDG_DATA_HOME": home + "/.xd", "XDG_CACHE_HOME": home + "/.xh", "GOMAXPROCS": "2"}
    with open(out_path, "wb") as fo, open(err_path, "wb") as fe:
        p = subprocess.Popen([OCTOSQL, sql, "-o", "json"], stdin=subprocess.PIPE, stdout=fo, stderr=fe, env=env, cwd=r.workdir)
        fd = p.stdin.fileno()
        pos, k, nchunks = 0, 0, 0
        deadline = time.time() + 30
        closed_early = False
        try:
            while pos < len(data):
                # wait until the process has consumed everything written so far
                while pipe_pending(fd) > 0:
                    if p.poll() is not None:
                        break
                    if time.time() > deadline:
                        break
                    time.sleep(0.0002)
                if p.poll() is not None or time.time() > deadline:
                    break
                c = chunk_sizes[k % len(chunk_sizes)]
                if nchunks >= 300:
                    c = max(c, 65536)  # bound the cost of a run: fine-grained chunking for the first 300 chunks only
                k += 1
                os.write(fd, data[pos:pos + c])
                pos += c
                nchunks += 1
        except BrokenPipeError:
            closed_early = True
        try:
            p.stdin.close()
        except BrokenPipeError:
            closed_early = True
        try:
            rc = p.wait(timeout=max(1, deadline - time.time()))
        except subprocess.TimeoutExpired:
            p.kill()
            p.wait()
            r.violate("C23", "timeout", attrs, "octosql did not finish within 30s reading %d rows from stdin" % n)
            return
    r.fault("pipe_chunks", nchunks)
    r.events = n
    out = open(out_path, "rb").read().decode("utf-8", "replace")
    err = open(err_path, "rb").read().decode("utf-8", "replace")
    r.log("exit=%d stdout_lines=%d stderr=%s" % (rc, out.count("\n"), simlib.norm_err(err).strip()[:200]))
    if rc != 0:
        r.violate("C23", "run_error", attrs, "octosql exited %d on a well-formed document: %s" % (rc, simlib.norm_err(err).strip()[:300]))
        return
    got = []
    for line in out.splitlines():
        if line.strip():
            try:
                got.append(json.loads(line))
            except ValueError:
                r.violate("C23", "row_content", attrs, "output line is not JSON: %r" % line[:200])
                return
    want = rows if limit is None else rows[:limit]
    if len(got) != len(want):
        r.violate("C23", "row_count", attrs, "document has %d rows%s, output has %d" % (n, "" if limit is None else " (LIMIT %d)" % limit, len(got)))
        return
    for i, (g, w) in enumerate(zip(got, want)):
        if g != w:
            r.violate("C23", "row_content", attrs, "row %d: got %s, document has %s" % (i, json.dumps(g, ensure_ascii=False)[:200], json.dumps(w, ensure_ascii=False)[:200]))
            return


def hashlib_of(s):
    import hashlib
    return hashlib.sha256(s.encode()).hexdigest()[:12]


if __name__ == "__main__":
    simlib.worker_main("c23stdin", run_once)
