package sim

import (
	"fmt"
	"sort"
	"strings"
	"time"

	"github.com/cube2222/octosql/aggregates"
	"github.com/cube2222/octosql/execution"
	"github.com/cube2222/octosql/execution/nodes"
	"github.com/cube2222/octosql/octosql"
)

func init() {
	register("c15", func(r *Run) {
		// a quarter of the runs exercise the two-input joins under a schedule
		if r.Tape.Draw(4) == 0 {
			joinScenario(r, "C15")
		} else {
			opScenario(r, "C15")
		}
	})
}

func fnExpr(f func(args []octosql.Value) octosql.Value, args ...execution.Expression) execution.Expression {
	return execution.NewFunctionCall(func(a []octosql.Value) (octosql.Value, error) { return f(a), nil }, args, nil)
}

func windowEnd(sec int) int { return (sec/2 + 1) * 2 }

// opRow: [a in 1..3, b in 0..3 or NULL, tk = window end of the event time]
func opRow(t *Tape, i, sec int) []octosql.Value {
	a := intv(1 + t.Draw(3))
	var b octosql.Value
	if x := t.Draw(5); x == 4 {
		b = octosql.NewNull()
	} else {
		b = intv(x)
	}
	tk := sec
	if tk == 0 {
		tk = 2 + 2*t.Draw(2)
	} else {
		tk = windowEnd(sec)
	}
	return []octosql.Value{a, b, octosql.NewTime(T(tk))}
}

// withTrailingWatermark runs its source and then sends one watermark.
type withTrailingWatermark struct {
	source execution.Node
	wm     time.Time
}

func (w *withTrailingWatermark) Run(ctx execution.ExecutionContext, produce execution.ProduceFn, metaSend execution.MetaSendFn) error {
	if err := w.source.Run(ctx, produce, metaSend); err != nil {
		return err
	}
	return metaSend(execution.ProduceFromExecutionContext(ctx), execution.MetadataMessage{Type: execution.MetadataMessageTypeWatermark, Watermark: w.wm})
}

type triggerCfg struct {
	counting  int // 0 = none
	watermark bool
	eos       bool
}

func (c triggerCfg) String() string {
	return fmt.Sprintf("counting=%d,watermark=%v,eos=%v", c.counting, c.watermark, c.eos)
}

// Kinds names the configured trigger kinds without parameters (used in violation classes).
func (c triggerCfg) Kinds() string {
	var parts []string
	if c.counting > 0 {
		parts = append(parts, "counting")
	}
	if c.watermark {
		parts = append(parts, "watermark")
	}
	if c.eos {
		parts = append(parts, "eos")
	}
	return strings.Join(parts, "+")
}

func (c triggerCfg) prototype(timeIdx int) func() execution.Trigger {
	var ps []func() execution.Trigger
	if c.counting > 0 {
		ps = append(ps, execution.NewCountingTriggerPrototype(uint(c.counting)))
	}
	if c.watermark {
		ps = append(ps, execution.NewWatermarkTriggerPrototype(timeIdx))
	}
	if c.eos {
		ps = append(ps, execution.NewEndOfStreamTriggerPrototype())
	}
	if len(ps) == 1 {
		return ps[0]
	}
	return execution.NewMultiTriggerPrototype(ps)
}

func drawTriggerCfg(t *Tape) triggerCfg {
	for {
		c := triggerCfg{}
		if t.Chance(1, 2) {
			c.counting = 1 + t.Draw(4)
		}
		c.watermark = t.Chance(1, 2)
		c.eos = t.Chance(1, 2)
		if c.counting > 0 || c.watermark || c.eos {
			return c
		}
		// all-false draw: fall back to the simplest config deterministically
		return triggerCfg{eos: true}
	}
}

// refGroupBy groups rows by key columns and computes count(b), sum(b) over
// non-NULL b (NULL when the group has none), as rows [key..., count, sum].
func refGroupBy(in *MS, keyIdx []int, bIdx int) *MS {
	type acc struct {
		key        []octosql.Value
		cnt, sum   int64
		nonNullCnt int
	}
	groups := map[string]*acc{}
	var order []string
	for _, row := range in.Rows() {
		k := project(row, keyIdx)
		ks := RowKey(k)
		g, ok := groups[ks]
		if !ok {
			g = &acc{key: k}
			groups[ks] = g
			order = append(order, ks)
		}
		if row[bIdx].TypeID != octosql.TypeIDNull {
			g.nonNullCnt++
			g.cnt++
			g.sum += row[bIdx].Int
		}
	}
	out := NewMS()
	for _, ks := range order {
		g := groups[ks]
		row := append([]octosql.Value{}, g.key...)
		if g.nonNullCnt > 0 {
			row = append(row, octosql.NewInt(g.cnt), octosql.NewInt(g.sum))
		} else {
			row = append(row, octosql.NewNull(), octosql.NewNull())
		}
		out.Add(row, 1)
	}
	return out
}

var opNames = []string{"filter", "map", "distinct", "simple_group_by", "custom_trigger_group_by", "lookup_join", "order_by"}

// opScenario feeds one generated valid changelog to one real single-input
// execution node and checks (C15) that the output is itself a valid changelog
// and consolidates to the operator applied to the consolidated input, or (C18)
// that watermarks are monotone and no late record is created.
// c18ForceRefire: set by C18's dispatch for its dedicated "group fired, watermark passes, group shrinks" runs.
var c18ForceRefire bool

func opScenario(r *Run, mode string) {
	t := r.Tape
	hdr := t.Block(24)
	op := hdr.Draw(len(opNames))
	maxSteps := 8
	if r.Thorough() {
		maxSteps = []int{6, 12, 24}[hdr.Draw(3)]
	}
	watermarked := hdr.Chance(2, 3)
	tcfg := drawTriggerCfg(hdr)
	desc := hdr.Chance(1, 2)
	attrs := map[string]string{"node": opNames[op]}
	// C18 only: a group-by keyed by a alone (no time column in the key) over a stream whose retractions carry
	// their own, later event times (still above the source's watermark: no late data). A group can then be
	// fired, a watermark can pass, and the group can shrink or vanish afterwards.
	if c18ForceRefire {
		for i, n := range opNames {
			if n == "custom_trigger_group_by" {
				op = i
			}
		}
		attrs["node"] = opNames[op]
	}
	keyWithoutTime := mode == "C18" && opNames[op] == "custom_trigger_group_by" && (c18ForceRefire || hdr.Chance(2, 3))
	rw, ww := 0, 0
	if keyWithoutTime {
		rw, ww = 5, 5 // fire, let a watermark pass, shrink or empty the group again: short scripts must get there
		// a counting trigger, so that groups are fired while the stream is still going on
		tcfg = triggerCfg{counting: 1 + hdr.Draw(2), eos: hdr.Chance(1, 2)}
	}

	rowFn := opRow
	if keyWithoutTime && hdr.Chance(2, 3) {
		// few groups, so that a group is fired, outlived by a watermark and emptied again within a short script
		oneGroup := hdr.Chance(1, 2)
		rowFn = func(t *Tape, i, sec int) []octosql.Value {
			row := opRow(t, i, sec)
			if oneGroup || row[0].Int == 3 {
				row[0] = intv(1)
			}
			return row
		}
	}
	script := GenChangelog(t.Block(stepBlock*maxSteps+10), ChangelogCfg{MaxSteps: maxSteps, Watermarked: watermarked || keyWithoutTime, Retractions: true, Dups: true,
		Row: rowFn, FinalWM: true, FinalWMAlways: keyWithoutTime, RetractSameTime: !keyWithoutTime, ZeroTimeMix: !keyWithoutTime,
		RetractWeight: rw, WMWeight: ww,
		// a late insertion is still a valid changelog entry (C15 does not presuppose "no late data"; C18 does)
		LateRecords: mode == "C15"})
	var lookupRows [][]octosql.Value
	if opNames[op] == "lookup_join" {
		lb := t.Block(20)
		for i := 0; i < 4; i++ {
			if lb.Draw(5) == 0 {
				break
			}
			lookupRows = append(lookupRows, []octosql.Value{intv(1 + lb.Draw(3)), idv("j", i)})
		}
	}
	r.Log("op=%s watermarked=%v trigger={%s} desc=%v", opNames[op], watermarked, tcfg, desc)
	r.Log("in: %s", ScriptString(script))
	r.Shape(op, watermarked, tcfg.String(), desc, scriptShape(script), len(lookupRows))
	r.Sched(ScriptString(script))
	r.NonTrivial(len(script) >= 2)
	r.AddSimTime(int64(len(script)) * int64(time.Second))

	src := &ScriptSource{Name: "S", Msgs: script}
	sourceEnded := false
	src.OnEOS = func() { sourceEnded = true }
	in := NewMS()
	for _, m := range script {
		if m.Kind == MsgRec {
			if m.Retr {
				in.Add(m.Values, -1)
			} else {
				in.Add(m.Values, 1)
			}
		}
	}
	varA, varB, varT := execution.NewVariable(0, 0), execution.NewVariable(0, 1), execution.NewVariable(0, 2)
	orderLimit := 0
	var node execution.Node
	want := NewMS()
	switch opNames[op] {
	case "filter":
		node = nodes.NewFilter(src, fnExpr(func(a []octosql.Value) octosql.Value { return octosql.NewBoolean(a[0].Int >= 2) }, varA))
		for _, row := range in.Rows() {
			if row[0].Int >= 2 {
				want.Add(row, 1)
			}
		}
	case "map":
		f := func(a []octosql.Value) octosql.Value {
			if a[1].TypeID == octosql.TypeIDNull {
				return octosql.NewInt(a[0].Int * 10)
			}
			return octosql.NewInt(a[0].Int*10 + a[1].Int)
		}
		node = nodes.NewMap(src, []execution.Expression{fnExpr(f, varA, varB), varT})
		for _, row := range in.Rows() {
			want.Add([]octosql.Value{f(row), row[2]}, 1)
		}
	case "distinct":
		node = nodes.NewDistinct(src)
		for _, row := range in.Rows() {
			if want.Count(row) == 0 {
				want.Add(row, 1)
			}
		}
	case "simple_group_by":
		node = nodes.NewSimpleGroupBy(
			[]func() nodes.Aggregate{aggregates.CountOverloads[0].Prototype, aggregates.SumOverloads[0].Prototype},
			[]execution.Expression{varB, varB}, []execution.Expression{varA}, src)
		want = refGroupBy(in, []int{0}, 1)
	case "custom_trigger_group_by":
		timeIdx := -1
		if tcfg.watermark || hdr.Chance(1, 2) {
			timeIdx = 1
		}
		if keyWithoutTime {
			node = nodes.NewCustomTriggerGroupBy(
				[]func() nodes.Aggregate{aggregates.CountOverloads[0].Prototype, aggregates.SumOverloads[0].Prototype},
				[]execution.Expression{varB, varB}, []execution.Expression{varA}, -1, src, tcfg.prototype(1))
			want = refGroupBy(in, []int{0}, 1)
			attrs["key"] = "without_time"
		} else {
			node = nodes.NewCustomTriggerGroupBy(
				[]func() nodes.Aggregate{aggregates.CountOverloads[0].Prototype, aggregates.SumOverloads[0].Prototype},
				[]execution.Expression{varB, varB}, []execution.Expression{varA, varT}, timeIdx, src, tcfg.prototype(1))
			want = refGroupBy(in, []int{0, 2}, 1)
		}
		attrs["trigger"] = tcfg.Kinds()
	case "lookup_join":
		recs := make([]execution.Record, len(lookupRows))
		for i := range lookupRows {
			recs[i] = execution.NewRecord(lookupRows[i], false, time.Time{})
		}
		if len(lookupRows) > 0 && hdr.Chance(1, 2) {
			// the looked-up stream is a changelog too: it delivers a row, takes it back, and goes on
			// (net effect none); the join must combine the signs of both sides
			extra := []octosql.Value{lookupRows[0][0], idv("jx", 0)}
			recs = append([]execution.Record{execution.NewRecord(extra, false, time.Time{}), execution.NewRecord(extra, true, time.Time{})}, recs...)
			attrs["lookup_side"] = "retracts"
		}
		// joined side: rows whose key equals the source record's a (variable one level up)
		var lookedUp execution.Node = nodes.NewInMemoryRecords(recs)
		if hdr.Chance(1, 3) {
			// the looked-up stream is watermarked itself (a table behind max_diff_watermark): every run of it
			// ends with its own, small watermark, which says nothing about the join's output
			lookedUp = &withTrailingWatermark{source: lookedUp, wm: T(1)}
			attrs["lookup_side_watermarked"] = "true"
		}
		joined := nodes.NewFilter(lookedUp,
			fnExpr(func(a []octosql.Value) octosql.Value { return octosql.NewBoolean(a[0].Int == a[1].Int) },
				execution.NewVariable(0, 0), execution.NewVariable(1, 0)))
		node = nodes.NewLookupJoin(src, joined)
		for _, row := range in.Rows() {
			for _, j := range lookupRows {
				if j[0].Int == row[0].Int {
					want.Add(concat(row, j), 1)
				}
			}
		}
	case "order_by":
		mult := 1
		if desc {
			mult = -1
		}
		if hdr.Chance(1, 2) {
			// ORDER BY a LIMIT n over a changelog: the first n of the sort order of what is left at the end
			// (ties on the key may be broken either way: the keys are compared, and every row must be a row of the input)
			orderLimit = 1 + hdr.Draw(4)
			var lim execution.Expression = execution.NewConstant(octosql.NewInt(int64(orderLimit)))
			node = nodes.NewOrderSensitiveTransform(src, []execution.Expression{varA}, []int{mult}, &lim, false)
			attrs["limit"] = "true"
		} else {
			node = nodes.NewOrderSensitiveTransform(src, []execution.Expression{varA}, []int{mult}, nil, false)
		}
		want = in.Clone()
	}

	running := NewMS()
	var lastWM time.Time
	var outKeys []int64
	var firstRun []string
	nOut := 0
	produce := func(ctx execution.ProduceContext, rec execution.Record) error {
		r.SinkLog("  out %s", Msg{Kind: MsgRec, Values: rec.Values, Retr: rec.Retraction, ET: rec.EventTime})
		nOut++
		firstRun = append(firstRun, Msg{Kind: MsgRec, Values: rec.Values, Retr: rec.Retraction, ET: rec.EventTime}.String())
		d := 1
		if rec.Retraction {
			d = -1
		}
		c := running.Add(rec.Values, d)
		if mode == "C15" && c < 0 {
			r.Violate("C15", "retract_absent", attrs, "operator retracted a row that is not present: %s", RowString(rec.Values))
		}
		if mode == "C18" && !rec.EventTime.IsZero() && !lastWM.IsZero() && !rec.EventTime.After(lastWM) {
			a := cloneAttrs(attrs)
			if sourceEnded && opNames[op] == "custom_trigger_group_by" {
				a["cause"] = "group_by_end_of_stream_emission"
			}
			r.Violate("C18", "late_record", a, "record %s emitted with event time %s at or below already emitted watermark %s",
				RowString(rec.Values), Sec(rec.EventTime), Sec(lastWM))
		}
		if opNames[op] == "order_by" && !rec.Retraction {
			outKeys = append(outKeys, rec.Values[0].Int)
		}
		return nil
	}
	metaSend := func(ctx execution.ProduceContext, msg execution.MetadataMessage) error {
		r.SinkLog("  out wm(%s)", Sec(msg.Watermark))
		nOut++
		firstRun = append(firstRun, "wm("+Sec(msg.Watermark)+")")
		if mode == "C18" && msg.Watermark.Before(lastWM) {
			r.Violate("C18", "watermark_regressed", attrs, "watermark %s emitted after %s", Sec(msg.Watermark), Sec(lastWM))
		}
		if msg.Watermark.After(lastWM) {
			lastWM = msg.Watermark
		}
		return nil
	}
	var err error
	func() {
		defer func() {
			if p := recover(); p != nil {
				err = fmt.Errorf("panic: %v", p)
			}
		}()
		err = node.Run(execution.ExecutionContext{Context: bubbleCtx()}, produce, metaSend)
	}()
	r.AddEvents(nOut)
	r.Log("run returned err=%v", err)
	if mode != "C15" {
		return
	}
	// A materialised node may be run again (LOOKUP JOIN re-runs its joined side per outer record):
	// a second run over the same input must emit exactly what the first did.
	if err == nil && !r.Failed() {
		var secondRun []string
		var err2 error
		func() {
			defer func() {
				if p := recover(); p != nil {
					err2 = fmt.Errorf("panic: %v", p)
				}
			}()
			err2 = node.Run(execution.ExecutionContext{Context: bubbleCtx()},
				func(ctx execution.ProduceContext, rec execution.Record) error {
					secondRun = append(secondRun, Msg{Kind: MsgRec, Values: rec.Values, Retr: rec.Retraction, ET: rec.EventTime}.String())
					return nil
				},
				func(ctx execution.ProduceContext, msg execution.MetadataMessage) error {
					secondRun = append(secondRun, "wm("+Sec(msg.Watermark)+")")
					return nil
				})
		}()
		if err2 != nil || strings.Join(firstRun, " ") != strings.Join(secondRun, " ") {
			r.Violate("C15", "rerun_differs", attrs, "running the same node a second time over the same input emits a different sequence (err=%v): first %v, second %v",
				err2, truncateList(firstRun, 12), truncateList(secondRun, 12))
		}
	}
	if err != nil {
		r.Violate("C15", "run_error", attrs, "operator failed on a valid changelog: %v", err)
		return
	}
	if orderLimit > 0 {
		// first n keys of the sorted input, and every emitted row is an input row (not more often than there)
		var keys []int64
		for _, row := range want.Rows() {
			keys = append(keys, row[0].Int)
		}
		sort.Slice(keys, func(i, j int) bool {
			if desc {
				return keys[i] > keys[j]
			}
			return keys[i] < keys[j]
		})
		if len(keys) > orderLimit {
			keys = keys[:orderLimit]
		}
		if fmt.Sprint(outKeys) != fmt.Sprint(keys) {
			r.Violate("C15", "consolidated_mismatch", attrs, "ORDER BY a LIMIT %d emitted keys %v, the first %d of the sorted consolidated input are %v", orderLimit, outKeys, orderLimit, keys)
		}
		for _, row := range running.Rows() {
			if running.Count(row) > want.Count(row) {
				r.Violate("C15", "consolidated_mismatch", attrs, "ORDER BY a LIMIT %d emitted %s more often than the consolidated input holds it", orderLimit, RowString(row))
			}
		}
	} else if d := running.Diff(want); d != "" {
		r.Violate("C15", "consolidated_mismatch", attrs, "consolidated output != operator applied to consolidated input: %s", d)
	}
	if opNames[op] == "order_by" {
		sorted := sort.SliceIsSorted(outKeys, func(i, j int) bool {
			if desc {
				return outKeys[i] > outKeys[j]
			}
			return outKeys[i] < outKeys[j]
		})
		if !sorted {
			r.Violate("C15", "order", attrs, "ORDER BY output is not sorted by its key: %v", outKeys)
		}
	}
}
