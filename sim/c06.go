package sim

import (
	"fmt"
	"os"
	"strings"

	"github.com/cube2222/octosql/execution"
	"github.com/cube2222/octosql/octosql"
	"github.com/cube2222/octosql/physical"
)

func init() {
	register("c06", func(r *Run) {
		if r.Tape.Draw(24) == 0 {
			joinBacklogErrorScenario(r)
		} else {
			checkC06(r)
		}
	})
}

// joinBacklogErrorScenario: a join input fails after it has run far ahead of a join whose
// consumer is stalled (the sink parks on its first row while the controller keeps releasing
// the sources). Whatever the backlog, the input's error must fail the query.
func joinBacklogErrorScenario(r *Run) {
	t := r.Tape
	hdr := t.Block(8)
	joinSQL := []string{"JOIN", "LEFT JOIN", "RIGHT JOIN", "OUTER JOIN"}[hdr.Draw(4)]
	backlog := []int{3, 500, 9998, 9999, 10000, 10001, 10400}[hdr.Draw(7)]
	failLeft := hdr.Chance(1, 2)
	optimize := hdr.Chance(1, 2)
	attrs := map[string]string{"source": "sim", "shape": "join_backlog", "fault": "source_error"}
	sql := "SELECT l.k, l.id, r.k, r.id FROM sim.l l " + joinSQL + " sim.r r ON l.k = r.k"
	r.Log("sql: %s; the %s input fails after %d rows while the sink is stalled", sql, map[bool]string{true: "left", false: "right"}[failLeft], backlog)
	r.Shape("join_backlog", joinSQL, backlog, failLeft, optimize)
	r.Sched(backlog)
	r.NonTrivial(true)
	r.Fault("source_error")
	big := make([]Msg, backlog)
	for i := range big {
		big[i] = Msg{Kind: MsgRec, Values: []octosql.Value{intv(1), intv(i)}}
	}
	small := []Msg{{Kind: MsgRec, Values: []octosql.Value{intv(1), intv(-1)}}}
	ctl := NewCtl()
	fields := []physical.SchemaField{{Name: "k", Type: octosql.Int}, {Name: "id", Type: octosql.Int}}
	srcErr := fmt.Errorf("sim: injected source failure")
	mk := func(name string, msgs []Msg, fails bool) *SimTable {
		return &SimTable{Fields: fields, TimeField: -1, NoRetractions: true, Source: func() execution.Node {
			s := &ScriptSource{Name: name, Msgs: msgs, Ctl: ctl, GateEvery: 2500}
			if fails {
				s.FinalErr = srcErr
			}
			return s
		}}
	}
	tables := map[string]*SimTable{"l": mk("L", small, false), "r": mk("R", small, false)}
	if failLeft {
		tables["l"] = mk("L", big, true)
	} else {
		tables["r"] = mk("R", big, true)
	}
	planned, err := PlanSQL(bubbleCtx(), sql, tables, optimize)
	if err != nil {
		r.Infra("query did not plan: %v", err)
		return
	}
	nOut := 0
	produce := func(ctx execution.ProduceContext, rec execution.Record) error {
		nOut++
		if nOut == 1 {
			if !ctl.Park("sink:stall") {
				return errAborted
			}
		}
		return nil
	}
	smallName := "R:"
	if !failLeft {
		smallName = "L:"
	}
	choose := func(en []string) int {
		// Deterministic by construction: first the small input runs to its end, then the big
		// one runs ahead in chunks (the join stalls in the sink on its first row, so from then on
		// only one producer feeds it), and the stalled sink is released last.
		for i, k := range en {
			if strings.HasPrefix(k, smallName) {
				return i
			}
		}
		for i, k := range en {
			if k != "sink:stall" {
				return i
			}
		}
		return 0
	}
	oc := RunGated(r, planned.Node, ctl, produce, func(execution.ProduceContext, execution.MetadataMessage) error { return nil }, choose, 100000)
	outputs := -1
	if oc.Finished {
		outputs = nOut
		r.AddEvents(nOut)
	}
	r.Log("run returned err=%v finished=%v deadlock=%v outputs=%d", errString(oc.Err), oc.Finished, oc.Deadlock, outputs)
	if oc.Deadlock || !oc.Finished {
		r.Violate("C06", "hang", attrs, "join query did not terminate after its input failed behind a backlog of %d rows", backlog)
		return
	}
	if oc.Err == nil {
		r.Violate("C06", "swallowed", attrs, "the %s input of %s failed after %d rows (sink stalled, backlog in the join's input channel) but the query reported success with %d rows",
			map[bool]string{true: "left", false: "right"}[failLeft], joinSQL, backlog, nOut)
	}
}

type c06Table struct {
	kind   string // json | csv | lines
	file   string
	rows   int
	alias  string
	id, g  string // column expressions
	s      string
	lit    func(int) string
	bad    int    // row index carrying a content fault (-1 none)
	badDoc string // what was written there
}

func (tb *c06Table) ref() string { return tb.file + " " + tb.alias }

func (tb *c06Table) badOrZero() int {
	if tb.bad < 0 {
		return 0
	}
	return tb.bad
}

// writeTable writes the table's file; contentFault in {"", "malformed", "long"} puts a faulty row at tb.bad.
func (tb *c06Table) write(contentFault string, longLen int) (int64, error) {
	var sb strings.Builder
	if tb.kind == "csv" {
		sb.WriteString("id,g,s\n")
	}
	for i := 0; i < tb.rows; i++ {
		g := i % 3
		s := fmt.Sprintf("v%d", i)
		if i == tb.bad && contentFault == "long" {
			s = strings.Repeat("L", longLen)
		}
		var line string
		switch tb.kind {
		case "json":
			// t: one row per second, ascending (the watermark shape groups by it)
			ts := fmt.Sprintf("2021-01-01T00:%02d:%02dZ", i/60, i%60)
			line = fmt.Sprintf(`{"id":%d,"g":%d,"s":"%s","t":"%s"}`, i, g, s, ts)
			if i == tb.bad && contentFault == "malformed" {
				line = fmt.Sprintf(`{"id":%d,"g":%d,"s":"%s","t":"%s"`, i, g, s, ts) + " oops"
			}
		case "csv":
			line = fmt.Sprintf("%d,%d,%s", i, g, s)
			if i == tb.bad && contentFault == "malformed" {
				if i%2 == 0 {
					line = fmt.Sprintf("%d,%d,%s,extra", i, g, s)
				} else {
					line = fmt.Sprintf("%d,%d,bare\"quote", i, g)
				}
			}
		case "lines":
			line = s
		}
		if i == tb.bad && contentFault != "" {
			tb.badDoc = truncateStr(line, 60)
		}
		sb.WriteString(line + "\n")
	}
	return int64(sb.Len()), os.WriteFile(tb.file, []byte(sb.String()), 0644)
}

func newC06Table(kind, name, alias string, rows int) *c06Table {
	tb := &c06Table{kind: kind, file: name + "." + kind, rows: rows, alias: alias, bad: -1}
	switch kind {
	case "json":
		tb.id, tb.g, tb.s = alias+".id", alias+".g", alias+".s"
		tb.lit = func(i int) string { return fmt.Sprintf("%d.0", i) }
	case "csv":
		tb.id, tb.g, tb.s = alias+".id", alias+".g", alias+".s"
		tb.lit = func(i int) string { return fmt.Sprint(i) }
	case "lines":
		tb.id, tb.g, tb.s = alias+".number", alias+".number", alias+".text"
		tb.lit = func(i int) string { return fmt.Sprint(i) }
	}
	return tb
}

var c06Shapes = []string{"none", "where", "distinct", "order_by", "group_by", "join", "in_subquery", "scalar_subquery", "limit_small", "limit_large", "order_by_limit", "count_star",
	// a failing expression above `(SELECT ... LIMIT k)` with the failing row among the first k (often exactly the k-th)
	"expr_over_limit",
	// max_diff_watermark -> GROUP BY t TRIGGER ON WATERMARK: the failure reaches the group-by through the
	// event-time buffer, several event times per release (json only: the time column is an RFC 3339 string)
	"watermark_group_by",
	// a failing expression above a plain GROUP BY subquery: the failure comes back into the group-by's emission loop
	"expr_over_group_by",
	// the joins other than the inner stream join, with the fault on either side
	"left_join", "lookup_join",
	// a failing expression as ORDER BY key
	"order_by_failing_key"}

// checkC06: one fault per run, injected into the data or the disk under a real
// file datasource, below a generated query shape. A query that has to consume
// the faulty part must fail; a LIMIT query may succeed only with exactly the
// output of the fault-free twin.
func checkC06(r *Run) {
	t := r.Tape
	hdr := t.Block(16)
	kind := []string{"json", "csv", "lines"}[hdr.Weighted(4, 3, 2)]
	shapeIdx := hdr.Draw(len(c06Shapes))
	shape := c06Shapes[shapeIdx]
	if shape == "watermark_group_by" && kind != "json" {
		shape = "group_by"
	}
	limitSlack := hdr.Weighted(3, 1, 1, 1)
	rowsOpts := []int{3, 8, 40, 130, 260}
	nMain := rowsOpts[hdr.Draw(len(rowsOpts))]
	nSub := []int{2, 5, 120}[hdr.Draw(3)]
	faultKinds := []string{"read_error", "malformed_row", "long_line", "panic_expr"}
	faultFree := hdr.Chance(1, 8)
	fault := faultKinds[hdr.Draw(len(faultKinds))]
	if kind == "lines" && fault == "malformed_row" {
		fault = "long_line" // every byte sequence is a valid lines file
	}
	if kind == "csv" && fault == "long_line" {
		fault = "malformed_row" // encoding/csv has no line limit
	}
	faultOnSub := hdr.Chance(1, 2)
	twoTables := shape == "join" || shape == "in_subquery" || shape == "scalar_subquery" || shape == "left_join" || shape == "lookup_join"
	if !twoTables {
		faultOnSub = false
	}
	optimize := hdr.Chance(2, 3)
	workers := 1 + hdr.Draw(4)
	// join only: the table without the fault contributes no row at all (its filter keeps nothing),
	// so that side of the join ends early and empty while the faulty side is still running
	emptyOther := shape == "join" && hdr.Chance(1, 3)
	posDraw := hdr.Draw(1000)
	maxLine := []int{64, 100, 200}[hdr.Draw(3)]
	previewPhase := hdr.Chance(1, 6) // arm the read error on the schema-preview open instead

	main := newC06Table(kind, "c06main", "m", nMain)
	sub := newC06Table(kind, "c06sub", "x", nSub)
	target := main
	if faultOnSub {
		target = sub
	}
	target.bad = posDraw % target.rows
	if (shape == "join" || shape == "left_join" || shape == "lookup_join") && faultOnSub && kind == "lines" {
		// unoptimised, the filter sits above the join: the failing row must have a join partner to be evaluated
		target.bad = posDraw % min(nMain, nSub)
	}
	if twoTables && !faultOnSub {
		// a failing expression on a main-table row only has to surface if that row
		// survives the join / IN test: pick a row whose join value exists in the other table
		if kind == "lines" {
			target.bad = posDraw % min(nMain, nSub)
		} else {
			target.bad -= target.bad % 3
		}
	}
	if shape == "watermark_group_by" && posDraw%2 == 0 {
		// near the end of the file: the end-of-stream release of the event-time buffer covers the last few event times
		target.bad = max(0, target.rows-2-(posDraw/2)%4)
	}
	attrs := map[string]string{"source": kind, "shape": shape, "fault": fault}
	if faultFree {
		attrs["fault"] = "none"
	}

	build := func(withPanic bool) string {
		mWhere, xWhere := "", ""
		panicTerm := func(tb *c06Table) string {
			return fmt.Sprintf("(%s < %s OR panic(%s) = 'q')", tb.id, tb.lit(tb.bad), tb.s)
		}
		if withPanic {
			if target == main {
				mWhere = panicTerm(main)
			} else {
				xWhere = panicTerm(sub)
			}
		}

		and := func(a, b string) string {
			switch {
			case a == "":
				return b
			case b == "":
				return a
			}
			return a + " AND " + b
		}
		where := func(w string) string {
			if w == "" {
				return ""
			}
			return " WHERE " + w
		}
		joinWhere := ""
		if emptyOther {
			// the failing conjunct comes first, so that it is evaluated for every joined row when the
			// filter stays above the join; pushed below the join, the other side's filter keeps nothing
			if target == main {
				joinWhere = and(mWhere, sub.id+" < "+sub.lit(0))
			} else {
				joinWhere = and(xWhere, main.id+" < "+main.lit(0))
			}
		} else {
			joinWhere = and(mWhere, xWhere)
		}
		switch shape {
		case "none":
			return fmt.Sprintf("SELECT %s, %s FROM %s%s", main.id, main.s, main.ref(), where(mWhere))
		case "where":
			// the filter passes every row, so that a failing conjunct is always evaluated
			return fmt.Sprintf("SELECT %s FROM %s%s", main.id, main.ref(), where(and(mWhere, main.g+" >= "+main.lit(0))))
		case "distinct":
			return fmt.Sprintf("SELECT DISTINCT %s FROM %s%s", main.g, main.ref(), where(mWhere))
		case "order_by":
			return fmt.Sprintf("SELECT %s, %s FROM %s%s ORDER BY %s DESC", main.id, main.s, main.ref(), where(mWhere), main.id)
		case "group_by":
			return fmt.Sprintf("SELECT %s AS gg, COUNT(*) AS c FROM %s%s GROUP BY %s", main.g, main.ref(), where(mWhere), main.g)
		case "join":
			return fmt.Sprintf("SELECT %s, %s FROM %s JOIN %s ON %s = %s%s", main.id, sub.id, main.ref(), sub.ref(), main.g, sub.g, where(joinWhere))
		case "left_join", "lookup_join":
			kw := map[string]string{"left_join": "LEFT JOIN", "lookup_join": "LOOKUP JOIN"}[shape]
			// the failing conjunct is wrapped into a subquery of its own table, so that it is evaluated for every
			// row of that table whatever the join does with it
			mRef, xRef := main.ref(), sub.ref()
			if mWhere != "" {
				mRef = fmt.Sprintf("(SELECT * FROM %s WHERE %s) m", main.ref(), mWhere)
			}
			if xWhere != "" {
				xRef = fmt.Sprintf("(SELECT * FROM %s WHERE %s) x", sub.ref(), xWhere)
			}
			return fmt.Sprintf("SELECT %s, %s FROM %s %s %s ON %s = %s", main.id, sub.id, mRef, kw, xRef, main.g, sub.g)
		case "order_by_failing_key":
			key := main.id
			if withPanic && target == main {
				key = panicTerm(main)
			}
			return fmt.Sprintf("SELECT %s FROM %s ORDER BY %s", main.id, main.ref(), key)
		case "in_subquery":
			return fmt.Sprintf("SELECT %s FROM %s WHERE %s", main.id, main.ref(), and(mWhere, fmt.Sprintf("%s IN (SELECT %s FROM %s%s)", main.g, sub.g, sub.ref(), where(xWhere))))
		case "scalar_subquery":
			return fmt.Sprintf("SELECT %s, (SELECT %s FROM %s%s) AS sub FROM %s%s", main.id, sub.g, sub.ref(), where(xWhere), main.ref(), where(mWhere))
		case "limit_small":
			return fmt.Sprintf("SELECT %s FROM %s%s LIMIT 2", main.id, main.ref(), where(mWhere))
		case "limit_large":
			return fmt.Sprintf("SELECT %s FROM %s%s LIMIT 100000", main.id, main.ref(), where(mWhere))
		case "order_by_limit":
			return fmt.Sprintf("SELECT %s FROM %s%s ORDER BY %s LIMIT 3", main.id, main.ref(), where(mWhere), main.id)
		case "expr_over_limit":
			sel := main.id
			if withPanic && target == main {
				sel = strings.ReplaceAll(panicTerm(main), "m.", "x.") + " AS p"
			} else {
				sel = strings.ReplaceAll(sel, "m.", "x.")
			}
			return fmt.Sprintf("SELECT %s FROM (SELECT * FROM %s LIMIT %d) x", sel, main.ref(), main.badOrZero()+1+limitSlack)
		case "watermark_group_by":
			// Here exactly one row fails (not every row from the faulty one on), and in file order later event times
			// follow it: a release of the event-time buffer that covers several event times goes on after the failure.
			with := fmt.Sprintf("WITH w AS (SELECT * FROM max_diff_watermark(source=>TABLE(%s), max_diff=>INTERVAL 5 SECONDS, time_field=>DESCRIPTOR(t)) c) ", main.file)
			only := func(col string) string {
				return fmt.Sprintf("(%s < %s OR %s > %s OR panic('boom') = 'q')", col, main.lit(main.bad), col, main.lit(main.bad))
			}
			if limitSlack%2 == 0 {
				// the failing expression is an aggregate argument, evaluated by the group-by while it handles a record
				// that its event-time buffer releases
				arg := "id"
				if withPanic && target == main {
					arg = only("id")
				}
				return with + fmt.Sprintf("SELECT t, COUNT(%s) AS cnt FROM w GROUP BY t TRIGGER ON WATERMARK", arg)
			}
			// the failing expression sits above a second group-by, which handles what the first one emits on a watermark
			outerArg := "g.mx"
			if withPanic && target == main {
				outerArg = only("g.mx")
			}
			return with + "SELECT g.t, COUNT(" + outerArg + ") AS c2 FROM (SELECT t, MAX(id) AS mx FROM w GROUP BY t TRIGGER ON WATERMARK) g GROUP BY g.t TRIGGER ON WATERMARK"
		case "expr_over_group_by":
			sel := "g.c"
			if withPanic && target == main {
				sel = "(g.c < 0 OR panic('boom') = 'q') AS p" // COUNT(*) is never negative: fails for the first group emitted
			}
			return fmt.Sprintf("SELECT g.gg, %s FROM (SELECT %s AS gg, COUNT(*) AS c FROM %s GROUP BY %s) g", sel, main.g, main.ref(), main.g)
		case "count_star":
			// uses no column of the table at all: the optimiser may prune every field of the datasource
			return fmt.Sprintf("SELECT COUNT(*) AS c FROM %s%s", main.ref(), where(mWhere))
		}
		panic("shape")
	}
	consumesAll := shape != "limit_small" && shape != "expr_over_limit" // LIMIT 100000 and ORDER BY ... LIMIT read everything
	// the inner LIMIT lets the faulty row through (it is among the first k rows, in file order): a fault in that
	// row must surface; a read error at an arbitrary byte may lie beyond what LIMIT needs and is judged by the twin
	needsBadRow := shape == "expr_over_limit" && fault != "read_error"

	type outcome struct {
		planErr, runErr error
		rows            [][]octosql.Value
		fired           int
		deadlock        bool
	}
	runQuery := func(sql string, arm func(d *Disk)) outcome {
		var oc outcome
		ctl := NewCtl()
		disk := NewDisk(r, ctl)
		// every execution-phase read parks on a gate, and so do the JSON hand-offs: the two
		// sides of a join and the parser pool are interleaved by the tape, not by the Go scheduler
		for _, tb := range []*c06Table{main, sub} {
			disk.Plan(tb.file, 0, OpenPlan{ErrAt: -1})
			disk.PlanRest(tb.file, OpenPlan{ErrAt: -1, Gate: true})
		}
		if arm != nil {
			arm(disk)
		}
		installSim(ctl, disk, "json.worker.send", "json.reader.submit", "json.reader.done", "json.consumer.loop")
		defer installSim(nil, nil)
		planned, err := PlanSQL(bubbleCtx(), sql, map[string]*SimTable{}, optimize)
		if err != nil {
			oc.planErr = err
			oc.fired = disk.FiredCount("read_error")
			return oc
		}
		produce := func(ctx execution.ProduceContext, rec execution.Record) error {
			if rec.Retraction {
				// an outer join takes a NULL-padded row back: drop one earlier occurrence of it
				for i := len(oc.rows) - 1; i >= 0; i-- {
					if RowKey(oc.rows[i]) == RowKey(rec.Values) {
						oc.rows = append(oc.rows[:i:i], oc.rows[i+1:]...)
						return nil
					}
				}
				return fmt.Errorf("sim: retraction of a row that was never produced: %s", RowString(rec.Values))
			}
			oc.rows = append(oc.rows, rec.Values)
			return nil
		}
		g := RunGatedPool(r, planned.Node, workers, ctl, produce, func(execution.ProduceContext, execution.MetadataMessage) error { return nil },
			func(en []string) int {
				if shape == "in_subquery" || shape == "scalar_subquery" {
					// The subquery runs nested inside the main source's consumer. While it runs, hand-offs
					// of the main file must wait: otherwise several of the consumer's channels (parsed
					// batch, reader done) become ready at once and Go's select picks among them at random,
					// outside the tape's control.
					var cand []int
					for i, k := range en {
						if strings.Contains(k, sub.file) {
							cand = append(cand, i)
						}
					}
					if len(cand) > 0 {
						return cand[t.Draw(len(cand))]
					}
				}
				return t.Draw(len(en))
			}, 200000)
		oc.runErr = g.Err
		oc.deadlock = g.Deadlock || !g.Finished
		oc.fired = disk.FiredCount("read_error")
		return oc
	}

	simConfig.Files.JSON.MaxLineSizeBytes = 1024 * 1024
	defer func() { simConfig.Files.JSON.MaxLineSizeBytes = 1024 * 1024 }()
	// read buffer size: a knob (the 4 MiB default costs a 4 MiB clear per file open, and subqueries re-open per row)
	simConfig.Files.BufferSizeBytes = []int{65536, 4096, 512, 131072, 100, 4096 * 1024}[hdr.Weighted(4, 3, 2, 2, 1, 1)]
	defer func() { simConfig.Files.BufferSizeBytes = 4096 * 1024 }()

	// 1. fault-free twin
	if _, err := main.write("", 0); err != nil {
		r.Infra("write: %v", err)
		return
	}
	if _, err := sub.write("", 0); err != nil {
		r.Infra("write: %v", err)
		return
	}
	baseSQL := build(false)
	r.Log("sql: %s", baseSQL)
	r.Log("source=%s main=%d rows sub=%d rows optimize=%v workers=%d", kind, nMain, nSub, optimize, workers)
	r.Shape(kind, shape, fault, faultFree, faultOnSub, nMain, nSub, optimize, previewPhase, emptyOther)
	r.Sched(posDraw, maxLine, workers)
	r.NonTrivial(true)
	base := runQuery(baseSQL, nil)
	if base.planErr != nil || base.runErr != nil || base.deadlock {
		r.Infra("fault-free twin failed: plan=%v run=%v deadlock=%v (%s)", base.planErr, base.runErr, base.deadlock, baseSQL)
		return
	}
	r.AddEvents(len(base.rows))
	r.Log("fault-free twin: %d rows", len(base.rows))
	if faultFree {
		r.Probe("fault_free_runs")
		return
	}

	// 2. the faulty run
	sql := baseSQL
	var arm func(d *Disk)
	size := int64(0)
	switch fault {
	case "read_error":
		sz, _ := target.write("", 0)
		size = sz
		k := int64(posDraw) % sz
		ordinal := 1
		if previewPhase {
			ordinal = 0
		}
		arm = func(d *Disk) { d.Plan(target.file, ordinal, OpenPlan{ErrAt: k, Gate: ordinal > 0}) }
		r.Log("fault: EIO on %s after %d of %d bytes (open #%d)", target.file, k, sz, ordinal)
	case "malformed_row":
		target.write("malformed", 0)
		r.Log("fault: malformed row %d in %s: %s", target.bad, target.file, target.badDoc)
	case "long_line":
		n := maxLine + 30
		if kind == "lines" {
			n = 70000 // above bufio.Scanner's default 64 KiB token limit
		} else {
			simConfig.Files.JSON.MaxLineSizeBytes = maxLine
		}
		target.write("long", n)
		r.Log("fault: row %d of %s is %d bytes long (line limit %d)", target.bad, target.file, n, map[bool]int{true: 65536, false: maxLine}[kind == "lines"])
	case "panic_expr":
		sql = build(true)
		r.Log("fault: panic() at row %d of %s: %s", target.bad, target.file, sql)
	}
	_ = size
	res := runQuery(sql, arm)
	failed := res.planErr != nil || res.runErr != nil
	r.Fault(fault)
	r.Log("faulty run: plan err=%v run err=%v rows=%d eio_fired=%d", res.planErr, errString(res.runErr), len(res.rows), res.fired)
	if res.deadlock {
		r.Violate("C06", "hang", attrs, "query did not terminate after the fault (%s)", sql)
		return
	}
	if failed {
		return
	}
	if fault == "read_error" && res.fired == 0 {
		// the read never reached byte k (LIMIT stopped the query first): nothing failed
		r.Probe("fault_not_reached")
		if d := rowsToMS(res.rows).Diff(rowsToMS(base.rows)); d != "" {
			r.Violate("C06", "output_differs", attrs, "no fault fired, yet the output differs from the fault-free twin: %s", d)
		}
		return
	}
	if consumesAll || needsBadRow {
		what := "the failure"
		if fault == "read_error" {
			what = fmt.Sprintf("the read error (fired %d times)", res.fired)
		}
		r.Violate("C06", "swallowed", attrs, "%s was swallowed: the query reported success with %d rows (fault-free twin: %d rows); %s", what, len(res.rows), len(base.rows), sql)
		return
	}
	// LIMIT may legitimately stop before the faulty row: then the output must be the twin's
	want := base.rows
	if fault == "panic_expr" && target.bad < 2 {
		// the first two rows already need the panicking row
		r.Violate("C06", "swallowed", attrs, "panic() at row %d was swallowed under LIMIT 2: %s", target.bad, sql)
		return
	}
	if d := rowsToMS(res.rows).Diff(rowsToMS(want)); d != "" {
		r.Violate("C06", "incomplete_output", attrs, "zero exit but the output is not the complete answer: %s; %s", d, sql)
	}
}

func errString(err error) string {
	if err == nil {
		return "<nil>"
	}
	return truncateStr(err.Error(), 160)
}
