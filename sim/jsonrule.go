package sim

import "strings"

// jsonRule keeps Go's select inside the JSON datasource's consumer out of the
// picture. The consumer selects over "a parsed batch is ready" and "the line
// reader is done"; if both are ready at once Go picks at random, which the tape
// cannot control or replay. The rule restricts which parked gates may be
// released so that the consumer never sees both at once:
//
//   - json.reader.done:F is released only while F's consumer is parked at its loop
//     gate with nothing delivered to it that it has not received yet;
//   - after that, no json.worker.send:F until the consumer has taken the "done";
//   - the consumer's loop gate is released only when something has been delivered
//     for it to receive (so it never blocks inside the select).
//
// Parsed batches themselves may queue up freely (one FIFO channel: no choice
// for Go to make). Every real execution in which the consumer never finds both
// channels ready is still reachable; the ones excluded differ only in an
// unobservable way (the order in which "done" and a batch are noticed).
type jsonRule struct {
	st map[string]*jsonFileState
}

type jsonFileState struct {
	delivered   int  // worker.send / reader.done gates released
	loops       int  // consumer loop gates released
	donePending bool // "done" released, consumer has not looped since
}

func newJSONRule() *jsonRule { return &jsonRule{st: map[string]*jsonFileState{}} }

// splitGate: "json.worker.send:f.json:00064" -> ("json.worker.send", "f.json")
func splitGate(key string) (site, file string) {
	parts := strings.Split(key, ":")
	if len(parts) < 3 || !strings.HasPrefix(parts[0], "json.") {
		return "", ""
	}
	return parts[0], parts[1]
}

func (j *jsonRule) state(file string) *jsonFileState {
	s := j.st[file]
	if s == nil {
		s = &jsonFileState{}
		j.st[file] = s
	}
	return s
}

// filter returns the indices of en that may be released now.
func (j *jsonRule) filter(en []string) []int {
	parked := map[string]bool{}
	for _, k := range en {
		if site, file := splitGate(k); site == "json.consumer.loop" {
			parked[file] = true
		}
	}
	var allowed, forced []int
	for i, k := range en {
		site, file := splitGate(k)
		if site == "" {
			allowed = append(allowed, i)
			continue
		}
		s := j.state(file)
		switch site {
		case "json.consumer.loop":
			if s.delivered > s.loops {
				allowed = append(allowed, i)
			}
		case "json.reader.done":
			if parked[file] && s.delivered == s.loops {
				allowed = append(allowed, i)
			}
		case "json.worker.send":
			if !s.donePending {
				allowed = append(allowed, i)
			}
		default:
			allowed = append(allowed, i)
		}
	}
	if len(allowed) > 0 {
		return allowed
	}
	// Nothing may move under the rule (e.g. a consumer busy in a nested subquery that
	// needs the shared worker which holds a batch for it): fall back to everything.
	for i := range en {
		forced = append(forced, i)
	}
	return forced
}

func (j *jsonRule) released(key string) {
	site, file := splitGate(key)
	if site == "" {
		return
	}
	s := j.state(file)
	switch site {
	case "json.consumer.loop":
		s.loops++
		s.donePending = false
	case "json.reader.done":
		s.delivered++
		s.donePending = true
	case "json.worker.send":
		s.delivered++
	}
}
