//go:build !race

package sim

const raceBuild = false

func raceOff() {}
func raceOn()  {}
