package sim

import (
	"fmt"
	"strings"

	"github.com/cube2222/octosql/execution"
	"github.com/cube2222/octosql/octosql"
	"github.com/cube2222/octosql/physical"
)

func init() {
	register("c02", checkC02)
}

var intOrNull = octosql.TypeSum(octosql.Int, octosql.Null)

// tableFields: k, k2 nullable ints; v int; id string.
func c02Fields() []physical.SchemaField {
	return []physical.SchemaField{
		{Name: "k", Type: intOrNull},
		{Name: "k2", Type: intOrNull},
		{Name: "v", Type: octosql.Int},
		{Name: "id", Type: octosql.String},
	}
}

func genTable(t *Tape, prefix string, maxRows int, nullable bool) [][]octosql.Value {
	var rows [][]octosql.Value
	for i := 0; i < maxRows; i++ {
		b := t.Block(6)
		if b.Draw(maxRows+1) == 0 {
			break
		}
		key := func() octosql.Value {
			x := b.Draw(4)
			if x == 3 {
				if nullable {
					return octosql.NewNull()
				}
				x = 0
			}
			return intv(x + 1)
		}
		if len(rows) > 0 && b.Draw(5) == 0 {
			// a fully identical copy of an earlier row (tables are multisets)
			rows = append(rows, rows[b.Draw(len(rows))])
			continue
		}
		rows = append(rows, []octosql.Value{key(), key(), intv(b.Draw(4)), idv(prefix, i)})
	}
	return rows
}

func tableString(rows [][]octosql.Value) string {
	parts := make([]string, len(rows))
	for i := range rows {
		parts[i] = RowString(rows[i])
	}
	return strings.Join(parts, " ")
}

func rowsToScript(rows [][]octosql.Value) []Msg {
	msgs := make([]Msg, len(rows))
	for i := range rows {
		msgs[i] = Msg{Kind: MsgRec, Values: rows[i]}
	}
	return msgs
}

func rowsToMS(rows [][]octosql.Value) *MS {
	ms := NewMS()
	for _, r := range rows {
		ms.Add(r, 1)
	}
	return ms
}

// checkC02: SQL text -> real parser, typechecker, optimiser (on/off), materialiser
// over simulator tables; the interleaving of the inputs (and which finishes
// first) is chosen by the tape; oracle = nested-loop SQL join with NULL-never-equal.
func checkC02(r *Run) {
	t := r.Tape
	maxRows := 5
	if r.Thorough() {
		maxRows = []int{3, 6, 10}[t.Draw(3)]
	}
	hdr := t.Block(12)
	joinKind := hdr.Weighted(4, 2, 2, 2, 2) // inner, left, right, full, lookup
	nKeys := 1 + hdr.Weighted(5, 3, 1)
	theta := joinKind == 0 && hdr.Chance(1, 3)
	where := hdr.Chance(1, 3)
	third := hdr.Chance(1, 4)
	thirdKind := hdr.Weighted(3, 2, 2, 2) // inner, left, right, full (for the outer nesting)
	optimize := hdr.Chance(2, 3)
	sticky := []int{0, 50, 90}[hdr.Draw(3)]
	// how the result is observed: the simulator's collecting sink above the materialised plan, or what
	// `octosql -o <mode>` prints (RunE's own tail and the real printers, see cli.go)
	outMode := ""
	if m := hdr.Weighted(5, 1, 1, 1, 1, 1); m > 0 {
		outMode = OutputModes[m-1]
	}
	// a cross-table equality in WHERE on top of the ON clause (inner joins): two filter levels, both of
	// which the optimiser turns into join keys
	whereEq := joinKind == 0 && hdr.Chance(1, 3)
	// streamed inputs: every record carries an event time and watermarks are interleaved (the result is
	// the same join; the join then runs through its event-time buffers and both phases)
	streamed := joinKind != 4 && hdr.Chance(1, 4)

	L := genTable(t.Block(6*maxRows), "l", maxRows, true)
	R := genTable(t.Block(6*maxRows), "r", maxRows, true)
	var S [][]octosql.Value
	if third {
		S = genTable(t.Block(6*maxRows), "s", maxRows, true)
	}

	joinSQL := [...]string{"JOIN", "LEFT JOIN", "RIGHT JOIN", "OUTER JOIN", "LOOKUP JOIN"}
	kinds := [...]JoinKind{JoinInner, JoinLeft, JoinRight, JoinFull, JoinInner}
	keyCols := []string{"k", "k2", "v"}[:nKeys]
	on := func(a, b string) string {
		var conds []string
		for _, c := range keyCols {
			conds = append(conds, fmt.Sprintf("%s.%s = %s.%s", a, c, b, c))
		}
		return strings.Join(conds, " AND ")
	}
	cols := func(a string) string {
		return fmt.Sprintf("%s.k, %s.k2, %s.v, %s.id", a, a, a, a)
	}
	// a LOOKUP JOIN whose joined side is itself a join of r and s (an outer join there retracts NULL-padded
	// rows: the looked-up stream is a changelog)
	nestedRight := joinKind == 4 && third && hdr.Chance(1, 2)
	sql := "SELECT " + cols("l") + ", " + cols("r")
	if third {
		sql += ", " + cols("s")
	}
	sql += " FROM sim.l l " + joinSQL[joinKind] + " sim.r r ON " + on("l", "r")
	if theta {
		sql += " AND l.v < r.v"
	}
	if third {
		sql += " " + joinSQL[thirdKind] + " sim.s s ON " + on("r", "s")
	}
	if nestedRight {
		sql = "SELECT " + cols("l") + ", x.k, x.k2, x.v, x.id, x.sk, x.sk2, x.sv, x.sid FROM sim.l l LOOKUP JOIN (SELECT " + cols("r") +
			", s.k AS sk, s.k2 AS sk2, s.v AS sv, s.id AS sid FROM sim.r r " + joinSQL[thirdKind] + " sim.s s ON " + on("r", "s") + ") x ON " + on("l", "x")
	}
	if where {
		sql += " WHERE l.v >= 1"
		if whereEq {
			sql += " AND l.k2 = r.k2"
		}
	} else if whereEq {
		sql += " WHERE l.k2 = r.k2"
	}

	attrs := map[string]string{"join": strings.ToLower(strings.ReplaceAll(joinSQL[joinKind], " ", "_"))}
	if outMode != "" {
		attrs["output"] = outMode
	}
	r.Log("sql: %s", sql)
	r.Log("optimize=%v sticky=%d output=%s", optimize, sticky, outMode)
	r.Log("l: %s", tableString(L))
	r.Log("r: %s", tableString(R))
	if third {
		r.Log("s: %s", tableString(S))
	}
	r.Shape(joinKind, nKeys, theta, where, third, thirdKind, optimize, len(L), len(R), len(S), outMode, whereEq, streamed, nestedRight)

	ctl := NewCtl()
	sb := t.Block(3 * 3 * (maxRows + 1))
	mk := func(name string, rows [][]octosql.Value) *SimTable {
		script := rowsToScript(rows)
		if streamed {
			script = streamScript(sb.Block(3*(maxRows+1)), rows)
			r.Log("%s stream: %s", name, ScriptString(script))
		}
		return &SimTable{Fields: c02Fields(), TimeField: -1, NoRetractions: true,
			Source: func() execution.Node { return &ScriptSource{Name: name, Msgs: script, Ctl: ctl} }}
	}
	tables := map[string]*SimTable{"l": mk("L", L), "r": mk("R", R), "s": mk("S", S)}
	if nestedRight && hdr.Chance(1, 2) {
		// the outer side of the LOOKUP JOIN is a changelog as well: rows of l are delivered, some are taken back
		// (and some of those delivered again); together with a joined side that retracts, the join has to combine
		// the signs of both sides and undo in the right order
		var script []Msg
		cb := t.Block(2*len(L) + 2)
		for _, row := range L {
			script = append(script, Msg{Kind: MsgRec, Values: row})
			switch cb.Draw(4) {
			case 0:
				script = append(script, Msg{Kind: MsgRec, Values: row, Retr: true}, Msg{Kind: MsgRec, Values: row})
			case 1:
				if cb.Draw(2) == 0 {
					// taken back for good: not part of the table
					script = append(script, Msg{Kind: MsgRec, Values: row, Retr: true})
				}
			}
		}
		net := NewMS()
		for _, m := range script {
			if m.Retr {
				net.Add(m.Values, -1)
			} else {
				net.Add(m.Values, 1)
			}
		}
		L = net.Rows()
		r.Log("L changelog: %s", ScriptString(script))
		attrs["outer_side"] = "changelog"
		tables["l"] = &SimTable{Fields: c02Fields(), TimeField: -1, NoRetractions: false,
			Source: func() execution.Node { return &ScriptSource{Name: "L", Msgs: script, Ctl: ctl} }}
	}
	var planned *Planned
	if outMode == "" {
		var err error
		planned, err = PlanSQL(bubbleCtx(), sql, tables, optimize)
		if err != nil {
			r.Infra("query did not plan: %v", err)
			return
		}
	}

	// reference
	keyIdx := make([]int, nKeys)
	for i := range keyIdx {
		keyIdx[i] = []int{0, 1, 2}[i]
	}
	var thetaFn func(l, rr []octosql.Value) bool
	if theta {
		thetaFn = func(l, rr []octosql.Value) bool { return l[2].Int < rr[2].Int }
	}
	want := RefJoin(kinds[joinKind], rowsToMS(L), rowsToMS(R), keyIdx, keyIdx, 4, 4, false, thetaFn)
	if nestedRight {
		inner := RefJoin(kinds[thirdKind], rowsToMS(R), rowsToMS(S), keyIdx, keyIdx, 4, 4, false, nil)
		want = RefJoin(JoinInner, rowsToMS(L), inner, keyIdx, keyIdx, 4, 8, false, nil)
	} else if third {
		// the second join's left key columns are r's, at offset 4 in the first join's rows
		lk := make([]int, nKeys)
		for i := range lk {
			lk[i] = 4 + keyIdx[i]
		}
		want = RefJoin(kinds[thirdKind], want, rowsToMS(S), lk, keyIdx, 8, 4, false, nil)
	}
	if where {
		f := NewMS()
		for _, row := range want.Rows() {
			if row[2].TypeID == octosql.TypeIDInt && row[2].Int >= 1 {
				f.Add(row, 1)
			}
		}
		want = f
	}
	if whereEq {
		f := NewMS()
		for _, row := range want.Rows() {
			if row[1].TypeID == octosql.TypeIDInt && row[5].TypeID == octosql.TypeIDInt && row[1].Int == row[5].Int {
				f.Add(row, 1)
			}
		}
		want = f
	}

	got := NewMS()
	nOut := 0
	produce := func(ctx execution.ProduceContext, rec execution.Record) error {
		r.SinkLog("  out %s", Msg{Kind: MsgRec, Values: rec.Values, Retr: rec.Retraction, ET: rec.EventTime})
		nOut++
		d := 1
		if rec.Retraction {
			d = -1
		}
		got.Add(rec.Values, d)
		return nil
	}
	metaSend := func(ctx execution.ProduceContext, msg execution.MetadataMessage) error { return nil }
	var last byte
	var schedule []byte
	ctl.OnRelease = func(key string) {
		last = key[0]
		schedule = append(schedule, key[0])
		if strings.HasSuffix(key, "eos") {
			schedule = append(schedule, '$')
		}
	}
	choose := func(en []string) int {
		if last != 0 && t.Draw(100) < sticky {
			for i := range en {
				if en[i][0] == last {
					return i
				}
			}
		}
		return t.Draw(len(en))
	}
	var oc GatedOutcome
	if outMode == "" {
		oc = RunGated(r, planned.Node, ctl, produce, metaSend, choose, 20000)
	} else {
		var text string
		text, oc = RunCLI(r, sql, tables, optimize, outMode, ctl, choose, 20000)
		r.Probe("printed_" + outMode)
		if oc.Finished && oc.Err == nil {
			r.Log("printed:\n%s", ansiRe.ReplaceAllString(text, ""))
			var cols []string
			for _, tb := range []string{"l", "r", "s"}[:2+map[bool]int{false: 0, true: 1}[third]] {
				for _, c := range []string{"k", "k2", "v", "id"} {
					cols = append(cols, tb+"."+c)
				}
			}
			if nestedRight {
				cols = []string{"l.k", "l.k2", "l.v", "l.id", "x.k", "x.k2", "x.v", "x.id", "sk", "sk2", "sv", "sid"}
			}
			printed, err := DecodePrinted(outMode, cols, text)
			if err != nil {
				r.Violate("C02", "unreadable_output", attrs, "%v", err)
				return
			}
			for _, p := range printed {
				nOut++
				if p.Retr {
					got.Add(p.Values, -1)
				} else {
					got.Add(p.Values, 1)
				}
			}
		} else if oc.Finished && !strings.HasPrefix(oc.Err.Error(), "couldn't run query") && !strings.HasPrefix(oc.Err.Error(), "panic") {
			r.Infra("query did not plan: %v", oc.Err)
			return
		}
	}
	if oc.Finished { // a query that has not returned still owns the sink's state
		r.AddEvents(nOut)
	}
	r.Sched(string(schedule), tableString(L), tableString(R), tableString(S))
	r.NonTrivial(len(L)+len(R) >= 2)
	if joinKind == 4 {
		r.Probe("lookup_join_runs")
	}
	if oc.Deadlock {
		r.Violate("C02", "deadlock", attrs, "query neither finished nor has any source message left to deliver")
		return
	}
	if !oc.Finished {
		r.Infra("step cap reached")
		return
	}
	r.Log("run returned err=%v, %d outputs", oc.Err, nOut)
	if oc.Err != nil {
		r.Violate("C02", "run_error", attrs, "join query failed on valid input: %v", oc.Err)
		return
	}
	if d := got.Diff(want); d != "" {
		a := cloneAttrs(attrs)
		if strings.Contains(d, "NULL") && hasNullKey(L, R, S, nKeys) {
			a["null_keys"] = "true"
		}
		what := "consolidated output"
		if outMode != "" {
			what = "rows printed with -o " + outMode
		}
		r.Violate("C02", "result_mismatch", a, "%s != SQL join: %s", what, d)
	}
}

// streamScript turns a table into a watermarked stream: ascending event times (ties likely), a
// truthful watermark now and then (never above the time of a record still to come).
func streamScript(t *Tape, rows [][]octosql.Value) []Msg {
	var msgs []Msg
	sec := 1
	for _, row := range rows {
		b := t.Block(3)
		sec += b.Draw(3)
		msgs = append(msgs, Msg{Kind: MsgRec, Values: row, ET: T(sec)})
		if w := sec - 1 - b.Draw(2); b.Draw(3) == 0 && w >= 1 {
			msgs = append(msgs, Msg{Kind: MsgWM, ET: T(w)}) // strictly below every record still to come: no late data
		}
	}
	return msgs
}

func hasNullKey(L, R, S [][]octosql.Value, nKeys int) bool {
	for _, tbl := range [][][]octosql.Value{L, R, S} {
		for _, row := range tbl {
			for i := 0; i < nKeys; i++ {
				if row[i].TypeID == octosql.TypeIDNull {
					return true
				}
			}
		}
	}
	return false
}
