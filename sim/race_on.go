//go:build race

package sim

import "runtime"

const raceBuild = true

// The controller's own synchronisation must not add happens-before edges
// between goroutines of the system under test, or it would hide the races C29
// looks for. Bracketing gate operations with RaceDisable/RaceEnable makes them
// invisible to the detector.
func raceOff() { runtime.RaceDisable() }
func raceOn()  { runtime.RaceEnable() }
