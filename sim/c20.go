package sim

import (
	"fmt"
	"strings"
	"time"

	"github.com/cube2222/octosql/execution"
	"github.com/cube2222/octosql/octosql"
	"github.com/cube2222/octosql/physical"
)

func init() { register("c20", checkC20) }

func floorDiv(a, b int64) int64 {
	q := a / b
	if (a%b != 0) && ((a < 0) != (b < 0)) {
		q--
	}
	return q
}

func msTime(ms int64) time.Time { return epoch.Add(time.Duration(ms) * time.Millisecond) }

func msString(t time.Time) string {
	return fmt.Sprintf("%.3f", float64(t.Sub(epoch))/float64(time.Second))
}

// checkC20: SQL max_diff_watermark(...) over a scripted source; the reference
// model is stepped per input record and the emitted sequence (records and
// watermarks) must be exactly the specified one.
func checkC20(r *Run) {
	t := r.Tape
	hdr := t.Block(8)
	maxSteps := 10
	if r.Thorough() {
		maxSteps = []int{8, 16, 40}[hdr.Draw(3)]
	}
	maxDiffMs := []int64{0, 1000, 2000, 5000, 500, 1500}[hdr.Draw(6)]
	resMs := []int64{0, 1000, 2000, 5000, 10000, 500, 250}[hdr.Draw(7)] // 0 = default (1s)
	pre1970 := hdr.Chance(1, 8)
	withSrcWM := hdr.Chance(1, 4)
	base := epoch
	if pre1970 {
		// a few seconds before the Unix epoch: rounding of negative Unix times
		base = time.Unix(-40, 0).UTC()
	}
	baseMs := base.Sub(epoch).Milliseconds()

	// input: times wander upwards with bounded backward displacement, duplicates likely
	var script []Msg
	cur := int64(0)
	body := t.Block(6*maxSteps + 6)
	for i := 0; i < maxSteps; i++ {
		sb := body.Block(6)
		if sb.Draw(maxSteps+1) == 0 {
			break
		}
		if withSrcWM && sb.Draw(5) == 0 {
			script = append(script, Msg{Kind: MsgWM, ET: msTime(baseMs + cur)})
			continue
		}
		step := int64(sb.Draw(9)-3) * 500 // -1.5s .. +2.5s
		if sb.Draw(4) == 0 {
			step += int64(sb.Draw(4)) * 125 // off-grid
		}
		cur += step
		ts := msTime(baseMs + cur)
		script = append(script, Msg{Kind: MsgRec, Values: []octosql.Value{intv(i), octosql.NewTime(ts), intv(sb.Draw(3))}})
	}
	intervalSQL := func(ms int64) string { return fmt.Sprintf("INTERVAL %d MILLISECONDS", ms) }
	// SELECT * leaves the plan as it is; a column list makes the optimiser rewrite it (prune v / reorder)
	projection := [][]string{nil, {"id", "t"}, {"t", "id", "v"}, {"id", "t", "v"}}[hdr.Draw(4)]
	selectList := "*"
	if projection != nil {
		selectList = "x." + strings.Join(projection, ", x.")
	}
	sql := "SELECT " + selectList + " FROM max_diff_watermark(source=>TABLE(sim.s), max_diff=>" + intervalSQL(maxDiffMs) + ", time_field=>DESCRIPTOR(t)"
	if resMs != 0 {
		sql += ", resolution=>" + intervalSQL(resMs)
	}
	sql += ") x"
	res := resMs
	if res == 0 {
		res = 1000
	}
	attrs := map[string]string{"pre1970": fmt.Sprint(pre1970)}
	inDesc := make([]string, len(script))
	for i, m := range script {
		if m.Kind == MsgWM {
			inDesc[i] = "srcwm(" + msString(m.ET) + ")"
		} else {
			inDesc[i] = fmt.Sprintf("rec%d@%s", m.Values[0].Int, msString(m.Values[1].Time))
		}
	}
	r.Log("sql: %s", sql)
	r.Log("in: %s", strings.Join(inDesc, " "))
	r.Shape(maxDiffMs, resMs, pre1970, withSrcWM, fmt.Sprint(projection), scriptShape(script))
	r.Sched(strings.Join(inDesc, " "))
	r.NonTrivial(len(script) >= 2)
	r.AddSimTime((cur + 1) * int64(time.Millisecond))

	// reference model
	var expect []string
	haveMax, haveWM := false, false
	var maxSeen, curWM time.Time
	for _, m := range script {
		if m.Kind == MsgWM {
			continue // source watermarks are not forwarded
		}
		ts := m.Values[1].Time
		if !haveWM || ts.After(curWM) {
			out := m.Values
			if projection != nil {
				out = nil
				for _, c := range projection {
					out = append(out, m.Values[map[string]int{"id": 0, "t": 1, "v": 2}[c]])
				}
			}
			expect = append(expect, fmt.Sprintf("rec %s et=%s", RowString(out), msString(ts)))
		}
		rounded := time.Unix(0, floorDiv(ts.UnixNano(), res*int64(time.Millisecond))*res*int64(time.Millisecond))
		if !haveMax || rounded.After(maxSeen) {
			haveMax, haveWM = true, true
			maxSeen = rounded
			curWM = rounded.Add(-time.Duration(maxDiffMs) * time.Millisecond)
			expect = append(expect, "wm "+msString(curWM))
		}
	}

	tables := map[string]*SimTable{"s": {
		Fields:    []physical.SchemaField{{Name: "id", Type: octosql.Int}, {Name: "t", Type: octosql.Time}, {Name: "v", Type: octosql.Int}},
		TimeField: -1, NoRetractions: true,
		Source: func() execution.Node { return &ScriptSource{Name: "S", Msgs: script} },
	}}
	planned, err := PlanSQL(bubbleCtx(), sql, tables, hdr.Chance(1, 2))
	if err != nil {
		r.Infra("query did not plan: %v", err)
		return
	}
	// A materialised node may be run more than once (LookupJoin runs its joined side once per outer
	// record): in a third of the runs the same node is run a second time over the same stream and must
	// emit the same sequence again.
	passes := 1
	if hdr.Chance(1, 3) {
		passes = 2
		attrs["second_run_of_the_node"] = "true"
	}
	var got []string
	for pass := 0; pass < passes && err == nil; pass++ {
		got = nil
		if pass > 0 {
			r.Log("second run of the same node")
			r.Probe("node_run_twice")
		}
		func() {
			defer func() {
				if p := recover(); p != nil {
					err = fmt.Errorf("panic: %v", p)
				}
			}()
			err = planned.Node.Run(execution.ExecutionContext{Context: bubbleCtx()},
				func(ctx execution.ProduceContext, rec execution.Record) error {
					s := fmt.Sprintf("rec %s et=%s", RowString(rec.Values), msString(rec.EventTime))
					if rec.Retraction {
						s = "RETRACTION " + s
					}
					r.SinkLog("  out %s", s)
					got = append(got, s)
					return nil
				},
				func(ctx execution.ProduceContext, msg execution.MetadataMessage) error {
					s := "wm " + msString(msg.Watermark)
					r.SinkLog("  out %s", s)
					got = append(got, s)
					return nil
				})
		}()
		if pass+1 < passes && err == nil {
			if d := c20Diff(got, expect); d != "" {
				break
			}
		}
	}
	r.AddEvents(len(got))
	r.Log("run returned err=%v", err)
	if err != nil {
		r.Violate("C20", "run_error", attrs, "max_diff_watermark failed: %v", err)
		return
	}
	if d := c20Diff(got, expect); d != "" {
		r.Violate("C20", "sequence_mismatch", attrs, "%s (watermark = largest time rounded down to %dms minus %dms; records at or below the watermark dropped)", d, res, maxDiffMs)
	}
}

func c20Diff(got, expect []string) string {
	for i := 0; i < len(got) || i < len(expect); i++ {
		g, e := "<nothing>", "<nothing>"
		if i < len(got) {
			g = got[i]
		}
		if i < len(expect) {
			e = expect[i]
		}
		if g != e {
			return fmt.Sprintf("output #%d is %q, specified %q", i+1, g, e)
		}
	}
	return ""
}
