package sim

import (
	"bytes"
	encsv "encoding/csv"
	encjson "encoding/json"
	"fmt"
	"io"
	"os"
	"regexp"
	"strconv"
	"strings"
	"time"

	"github.com/gosuri/uilive"

	"github.com/cube2222/octosql/cmd"
	"github.com/cube2222/octosql/execution"
	"github.com/cube2222/octosql/octosql"
	"github.com/cube2222/octosql/physical"
)

// The "CLI tail": everything cmd/root.go's RunE does from sqlparser.Parse on -
// typecheck, optimise, materialise, the per-output-mode choice of Limit /
// OrderSensitiveTransform, the real printers, sink.Run. RunE as a whole cannot run
// inside a bubble (config file, plugin discovery, a fresh functions.FunctionMap()
// with ristretto tickers per call), so /verif/tools/mkoverlay copies that part of
// RunE verbatim into cmd.SimRunQuery at build time (an overlay-added file) and the
// simulator passes in its own environment (sim database, prebuilt function map).
// What runs under the seeded schedules is therefore RunE's own code.

func init() {
	// RunE's tail calls telemetry.SendTelemetry: never from a simulator (no network, and not inside a bubble)
	os.Setenv("OCTOSQL_NO_TELEMETRY", "1")
}

var OutputModes = []string{"live_table", "batch_table", "csv", "json", "stream_native"}

// cliNode lets RunGated drive a whole CLI query: planning and the printer run
// inside the bubble, the printed text goes to the captured stdout.
type cliNode struct {
	sql      string
	env      physical.Environment
	mode     string
	optimize bool
}

func (c *cliNode) Run(ctx execution.ExecutionContext, produce execution.ProduceFn, metaSend execution.MetaSendFn) error {
	return cmd.SimRunQuery(ctx.Context, c.sql, c.env, c.mode, c.optimize, false)
}

// RunCLI runs sql the way `octosql "<sql>" -o <mode> [--optimize=false]` does, over
// the simulator's tables, under the controller's schedule, and returns what was printed.
func RunCLI(r *Run, sql string, tables map[string]*SimTable, optimize bool, mode string, ctl *Ctl,
	choose func(enabled []string) int, stepCap int) (string, GatedOutcome) {
	node := &cliNode{sql: sql, env: simEnv(tables), mode: mode, optimize: optimize}
	var oc GatedOutcome
	text := CaptureStdout(func() {
		oc = RunGated(r, node, ctl, nil, nil, choose, stepCap)
	})
	return text, oc
}

// ---- stdout capture ----

var captureFile *os.File

// CaptureStdout runs fn with os.Stdout (eager and stream printers) and
// uilive.Out (table printers) redirected, and returns what was printed.
// One run at a time per process, like everything process-global in /repo.
func CaptureStdout(fn func()) string {
	if captureFile == nil {
		f, err := os.CreateTemp(".", "sim-stdout-*")
		if err != nil {
			panic(err)
		}
		os.Remove(f.Name()) // unlinked scratch file: gone when the process ends
		captureFile = f
	}
	captureFile.Truncate(0)
	captureFile.Seek(0, 0)
	var live bytes.Buffer
	oldStdout, oldLive := os.Stdout, uilive.Out
	os.Stdout, uilive.Out = captureFile, &live
	defer func() { os.Stdout, uilive.Out = oldStdout, oldLive }()
	fn()
	captureFile.Seek(0, 0)
	b, _ := io.ReadAll(captureFile)
	return string(b) + live.String()
}

// ---- decoding what was printed (ints, NULL and plain identifiers only: the
// encodings themselves are C25's subject, not on trial here) ----

type PrintedRow struct {
	Values []octosql.Value
	Retr   bool
}

var ansiRe = regexp.MustCompile("\x1b\\[[0-9;]*[A-Za-z]")

func parseCell(s string, quoted bool) (octosql.Value, error) {
	if quoted {
		if s == "<null>" {
			return octosql.NewNull(), nil
		}
		if len(s) >= 2 && s[0] == '\'' && s[len(s)-1] == '\'' {
			return octosql.NewString(s[1 : len(s)-1]), nil
		}
	} else if s == "" {
		return octosql.NewNull(), nil
	}
	if n, err := strconv.ParseInt(s, 10, 64); err == nil {
		return octosql.NewInt(n), nil
	}
	if len(s) >= 20 && s[4] == '-' && s[10] == 'T' {
		if ts, err := time.Parse(time.RFC3339, s); err == nil {
			return octosql.NewTime(ts.UTC()), nil // every format prints a time as RFC 3339, to the second
		}
	}
	if quoted {
		return octosql.Value{}, fmt.Errorf("cell %q is neither <null>, an integer nor a quoted string", s)
	}
	return octosql.NewString(s), nil
}

// DecodePrinted turns the captured output of one mode into rows, in printed order.
// For the table modes it is the last table printed (live mode reprints).
func DecodePrinted(mode string, cols []string, text string) ([]PrintedRow, error) {
	var rows []PrintedRow
	switch mode {
	case "json":
		for _, line := range strings.Split(text, "\n") {
			if line == "" {
				continue
			}
			dec := encjson.NewDecoder(strings.NewReader(line))
			dec.UseNumber()
			var obj map[string]interface{}
			if err := dec.Decode(&obj); err != nil {
				return nil, fmt.Errorf("json line %q: %v", line, err)
			}
			if len(obj) != len(cols) {
				return nil, fmt.Errorf("json line %q has %d fields, want %d", line, len(obj), len(cols))
			}
			vals := make([]octosql.Value, len(cols))
			for i, c := range cols {
				v, ok := obj[c]
				if !ok {
					return nil, fmt.Errorf("json line %q lacks field %q", line, c)
				}
				switch x := v.(type) {
				case nil:
					vals[i] = octosql.NewNull()
				case encjson.Number:
					n, err := x.Int64()
					if err != nil {
						return nil, fmt.Errorf("json line %q: %v", line, err)
					}
					vals[i] = octosql.NewInt(n)
				case string:
					vals[i], _ = parseCell(x, false)
				default:
					return nil, fmt.Errorf("json line %q: unexpected value %v", line, v)
				}
			}
			rows = append(rows, PrintedRow{Values: vals})
		}
	case "csv":
		recs, err := encsv.NewReader(strings.NewReader(text)).ReadAll()
		if err != nil {
			return nil, fmt.Errorf("csv: %v", err)
		}
		if len(recs) == 0 {
			return nil, fmt.Errorf("csv: no header")
		}
		if strings.Join(recs[0], ",") != strings.Join(cols, ",") {
			return nil, fmt.Errorf("csv header %v, want %v", recs[0], cols)
		}
		for _, rec := range recs[1:] {
			vals := make([]octosql.Value, len(rec))
			for i := range rec {
				vals[i], _ = parseCell(rec[i], false)
			}
			rows = append(rows, PrintedRow{Values: vals})
		}
	case "stream_native":
		for _, line := range strings.Split(text, "\n") {
			if line == "" || strings.HasPrefix(line, "{~") {
				continue
			}
			if len(line) < 4 || line[0] != '{' || !strings.HasSuffix(line, " |}") || (line[1] != '+' && line[1] != '-') {
				return nil, fmt.Errorf("stream_native line %q", line)
			}
			bar := strings.Index(line, "| ")
			if bar < 0 {
				return nil, fmt.Errorf("stream_native line %q", line)
			}
			body := line[bar+2 : len(line)-3]
			var vals []octosql.Value
			if body != "" {
				for _, cell := range strings.Split(body, ", ") {
					v, err := parseCell(cell, true)
					if err != nil {
						return nil, fmt.Errorf("stream_native line %q: %v", line, err)
					}
					vals = append(vals, v)
				}
			}
			rows = append(rows, PrintedRow{Values: vals, Retr: line[1] == '-'})
		}
	case "live_table", "batch_table":
		var lines []string
		for _, l := range strings.Split(ansiRe.ReplaceAllString(text, ""), "\n") {
			l = strings.TrimRight(l, "\r ")
			if l != "" && !strings.HasPrefix(l, "watermark:") {
				lines = append(lines, l)
			}
		}
		// [top border, header, border, rows..., bottom border], the last such block
		n := len(lines)
		if n < 4 || !strings.HasPrefix(lines[n-1], "+") {
			return nil, fmt.Errorf("table: no closing border in %q", text)
		}
		i := n - 2
		for i >= 0 && strings.HasPrefix(lines[i], "|") {
			i--
		}
		if i < 2 || !strings.HasPrefix(lines[i], "+") || !strings.HasPrefix(lines[i-1], "|") || !strings.HasPrefix(lines[i-2], "+") {
			return nil, fmt.Errorf("table: malformed block in %q", text)
		}
		hdr := splitTableRow(lines[i-1])
		if strings.Join(hdr, ",") != strings.Join(cols, ",") {
			return nil, fmt.Errorf("table header %v, want %v", hdr, cols)
		}
		for _, l := range lines[i+1 : n-1] {
			cells := splitTableRow(l)
			vals := make([]octosql.Value, len(cells))
			for j := range cells {
				v, err := parseCell(cells[j], true)
				if err != nil {
					return nil, fmt.Errorf("table row %q: %v", l, err)
				}
				vals[j] = v
			}
			rows = append(rows, PrintedRow{Values: vals})
		}
	default:
		return nil, fmt.Errorf("unknown mode %q", mode)
	}
	for _, row := range rows {
		if len(row.Values) != len(cols) {
			return nil, fmt.Errorf("%s: a row has %d values, want %d", mode, len(row.Values), len(cols))
		}
	}
	return rows, nil
}

func splitTableRow(l string) []string {
	l = strings.TrimSuffix(strings.TrimPrefix(l, "|"), "|")
	parts := strings.Split(l, "|")
	for i := range parts {
		parts[i] = strings.TrimSpace(parts[i])
	}
	return parts
}
