package sim

// Shrink minimises a failing tape: it repeatedly tries simpler tapes (spans
// zeroed, entries lowered, spans deleted) and keeps a candidate whenever
// still(candidate) reports the same violation class. still returns the
// normalised tape the run really consumed. Budgeted by attempts.
func Shrink(tape []uint32, blocks []BlockSpan, still func([]uint32) ([]uint32, []BlockSpan, bool), budget int) []uint32 {
	cur := append([]uint32(nil), tape...)
	try := func(c []uint32) bool {
		if budget <= 0 {
			return false
		}
		budget--
		norm, nb, ok := still(c)
		if !ok {
			return false
		}
		blocks = nb
		if len(norm) <= len(c) {
			cur = append([]uint32(nil), norm...)
		} else {
			cur = append([]uint32(nil), c...)
		}
		return true
	}
	trim := func() {
		for len(cur) > 0 && cur[len(cur)-1] == 0 {
			cur = cur[:len(cur)-1]
		}
	}
	trim()
	improved := true
	for improved && budget > 0 {
		improved = false
		// 0. delete whole child blocks (one generated step each), shifting
		// the later siblings left inside the parent block
		for bi := len(blocks) - 1; bi >= 0 && budget > 0; bi-- {
			if bi >= len(blocks) {
				continue
			}
			b := blocks[bi]
			// innermost enclosing block = parent
			parent := BlockSpan{-1, -1}
			for _, p := range blocks {
				if p != b && p.Start <= b.Start && b.End <= p.End && (parent.Start < 0 || p.End-p.Start < parent.End-parent.Start) {
					parent = p
				}
			}
			if parent.Start < 0 || b.Start >= len(cur) {
				continue
			}
			c := append([]uint32(nil), cur...)
			for len(c) < parent.End {
				c = append(c, 0)
			}
			nz := false
			for _, v := range c[b.Start:b.End] {
				if v != 0 {
					nz = true
				}
			}
			if !nz {
				continue
			}
			copy(c[b.Start:], c[b.End:parent.End])
			for j := parent.End - (b.End - b.Start); j < parent.End; j++ {
				c[j] = 0
			}
			if try(c) {
				improved = true
			}
		}
		trim()
		// 1. zero spans, large to small (keeps block alignment)
		for size := 32; size >= 1; size /= 2 {
			for i := 0; i < len(cur) && budget > 0; i += size {
				end := i + size
				if end > len(cur) {
					end = len(cur)
				}
				allZero := true
				for _, v := range cur[i:end] {
					if v != 0 {
						allZero = false
						break
					}
				}
				if allZero {
					continue
				}
				c := append([]uint32(nil), cur...)
				for j := i; j < end; j++ {
					c[j] = 0
				}
				if try(c) {
					improved = true
				}
			}
		}
		trim()
		// 2. lower single entries
		for i := 0; i < len(cur) && budget > 0; i++ {
			for i < len(cur) && cur[i] > 0 && budget > 0 {
				c := append([]uint32(nil), cur...)
				c[i] = cur[i] / 2
				if try(c) {
					improved = true
					continue
				}
				if cur[i]-1 != cur[i]/2 {
					c = append([]uint32(nil), cur...)
					c[i] = cur[i] - 1
					if try(c) {
						improved = true
						continue
					}
				}
				break
			}
		}
		trim()
		// 3. delete spans (mostly helps the unblocked tail: the schedule)
		for size := 8; size >= 1; size /= 2 {
			for i := len(cur) - size; i >= 0 && budget > 0; i-- {
				if i+size > len(cur) {
					continue
				}
				c := append(append([]uint32(nil), cur[:i]...), cur[i+size:]...)
				if try(c) {
					improved = true
				}
			}
		}
		trim()
	}
	return cur
}
