package sim

import (
	"fmt"
	"sort"
	"strings"
	"time"

	"github.com/cube2222/octosql/execution"
	"github.com/cube2222/octosql/octosql"
	"github.com/cube2222/octosql/physical"
)

func init() {
	register("c05", checkC05)
}

// C05: LIMIT n returns exactly min(n, rows) rows - rows of the result, the first n
// of the sort order under ORDER BY - in every output mode and nesting.
//
// What depends on the schedule: a LIMIT above concurrently running join inputs
// stops the query early at a point the interleaving chooses; an outer join emits a
// NULL-padded row and takes it back when the partner arrives later - or never emits
// it when the partner was there first; a counting trigger re-emits a group after
// every n records. Whether LIMIT counts only rows that are really in the result
// depends on which of these happened before the n-th record went by. The query
// runs through RunE's own tail (cmd.SimRunQuery, see cli.go) with the real
// printers; the oracle reads what was printed.

type c05Order struct {
	col  int
	desc bool
}

func c05Cmp(a, b octosql.Value) int {
	// documented convention: NULL sorts first; ints numerically; strings bytewise
	an, bn := a.TypeID == octosql.TypeIDNull, b.TypeID == octosql.TypeIDNull
	switch {
	case an && bn:
		return 0
	case an:
		return -1
	case bn:
		return 1
	}
	if a.TypeID == octosql.TypeIDInt && b.TypeID == octosql.TypeIDInt {
		switch {
		case a.Int < b.Int:
			return -1
		case a.Int > b.Int:
			return 1
		}
		return 0
	}
	return strings.Compare(a.Str, b.Str)
}

func c05KeyCmp(a, b []octosql.Value, ord []c05Order) int {
	for _, o := range ord {
		c := c05Cmp(a[o.col], b[o.col])
		if o.desc {
			c = -c
		}
		if c != 0 {
			return c
		}
	}
	return 0
}

func c05KeyString(row []octosql.Value, ord []c05Order) string {
	parts := make([]string, len(ord))
	for i, o := range ord {
		parts[i] = ValString(row[o.col])
	}
	return strings.Join(parts, "|")
}

// sortedKeys: the key of every row of rows, in sort order.
func c05SortedKeys(rows [][]octosql.Value, ord []c05Order) []string {
	cp := append([][]octosql.Value(nil), rows...)
	sort.SliceStable(cp, func(i, j int) bool { return c05KeyCmp(cp[i], cp[j], ord) < 0 })
	out := make([]string, len(cp))
	for i := range cp {
		out[i] = c05KeyString(cp[i], ord)
	}
	return out
}

func c05OrderSQL(ord []c05Order, cols []string, qual string) string {
	parts := make([]string, len(ord))
	for i, o := range ord {
		parts[i] = qual + cols[o.col]
		if o.desc {
			parts[i] += " DESC"
		}
	}
	return " ORDER BY " + strings.Join(parts, ", ")
}

func checkC05(r *Run) {
	t := r.Tape
	maxRows := 5
	if r.Thorough() {
		maxRows = []int{3, 6, 10}[t.Draw(3)]
	}
	hdr := t.Block(28)
	// single, inner join, outer join, group by + counting trigger, distinct, changelog table,
	// LOOKUP JOIN whose joined side is a LIMIT subquery (run again for every outer record)
	shape := hdr.Weighted(3, 3, 5, 3, 2, 3, 2)
	outerKind := hdr.Draw(3) // left, right, full
	mode := OutputModes[hdr.Draw(len(OutputModes))]
	nest := hdr.Weighted(5, 3, 2, 2, 2, 2) // A top, B subquery, C subquery + outer LIMIT, D subquery LIMIT + outer ORDER BY, E WITH, F ORDER BY only
	hasOrder := hdr.Chance(1, 2)
	nOrd := 1 + hdr.Draw(2)
	ordDraw := [2][2]int{{hdr.Draw(5), hdr.Draw(2)}, {hdr.Draw(5), hdr.Draw(2)}}
	limits := []int{0, 1, 2, 3, 4, 6, 9, 100}
	n := limits[hdr.Draw(len(limits))]
	n2 := limits[hdr.Draw(len(limits))]
	outerLimit := hdr.Chance(2, 3)
	optimize := hdr.Chance(2, 3)
	sticky := []int{0, 50, 90}[hdr.Draw(3)]
	countingN := 1 + hdr.Draw(3)
	eosToo := hdr.Chance(1, 3)
	where := hdr.Chance(1, 4)
	jumps := mode == "live_table" && hdr.Chance(1, 2)

	L := genTable(t.Block(6*maxRows), "l", maxRows, true)
	var R [][]octosql.Value
	var changelog []Msg
	twoSources := shape == 1 || shape == 2 || shape == 6
	if shape == 6 {
		nest = 6
	}
	if twoSources {
		R = genTable(t.Block(6*maxRows), "r", maxRows, true)
	}
	if shape == 5 {
		fresh := 0
		changelog = GenChangelog(t.Block(stepBlock*2*maxRows+10), ChangelogCfg{MaxSteps: 2 * maxRows, Retractions: true, Dups: true,
			Row: func(t *Tape, i, sec int) []octosql.Value {
				fresh++
				k := func() octosql.Value {
					if x := t.Draw(4); x < 3 {
						return intv(x + 1)
					}
					return octosql.NewNull()
				}
				return []octosql.Value{k(), k(), intv(t.Draw(4)), idv("l", i)}
			}})
	}

	// the query whose rows LIMIT / ORDER BY select from, and its reference result
	var base string
	var cols []string
	want := NewMS()
	joinSQL := [...]string{"LEFT JOIN", "RIGHT JOIN", "OUTER JOIN"}
	switch shape {
	case 0, 5:
		base = "SELECT l.k AS a, l.k2 AS b, l.v AS c, l.id AS d FROM sim.l l"
		cols = []string{"a", "b", "c", "d"}
		in := rowsToMS(L)
		if shape == 5 {
			in = NewMS()
			for _, m := range changelog {
				if m.Retr {
					in.Add(m.Values, -1)
				} else {
					in.Add(m.Values, 1)
				}
			}
		}
		if where {
			base += " WHERE l.v >= 1"
		}
		for _, row := range in.Rows() {
			if !where || row[2].Int >= 1 {
				want.Add(row, 1)
			}
		}
	case 1, 2:
		kw, kind := "JOIN", JoinInner
		if shape == 2 {
			kw, kind = joinSQL[outerKind], []JoinKind{JoinLeft, JoinRight, JoinFull}[outerKind]
		}
		base = "SELECT l.k AS a, l.v AS b, l.id AS c, r.v AS d, r.id AS e FROM sim.l l " + kw + " sim.r r ON l.k = r.k"
		cols = []string{"a", "b", "c", "d", "e"}
		for _, row := range RefJoin(kind, rowsToMS(L), rowsToMS(R), []int{0}, []int{0}, 4, 4, false, nil).Rows() {
			want.Add([]octosql.Value{row[0], row[2], row[3], row[6], row[7]}, 1)
		}
	case 3:
		trig := fmt.Sprintf(" TRIGGER COUNTING %d", countingN)
		if eosToo {
			trig += ", ON END OF STREAM"
		}
		base = "SELECT l.k, COUNT(l.id) AS b, SUM(l.v) AS c FROM sim.l l GROUP BY l.k" + trig
		cols = []string{"k", "b", "c"}
		type acc struct {
			key      octosql.Value
			cnt, sum int
		}
		groups := map[string]*acc{}
		var order []string
		for _, row := range L {
			ks := ValString(row[0])
			if groups[ks] == nil {
				groups[ks] = &acc{key: row[0]}
				order = append(order, ks)
			}
			groups[ks].cnt++
			groups[ks].sum += int(row[2].Int)
		}
		for _, ks := range order {
			g := groups[ks]
			want.Add([]octosql.Value{g.key, intv(g.cnt), intv(g.sum)}, 1)
		}
	case 6:
		// the subquery yields the first n rows of r in delivery order (or by id under ORDER BY: ids differ
		// except between fully identical rows), once per outer record, and every run must yield them again
		sub := "SELECT * FROM sim.r r"
		rows := append([][]octosql.Value(nil), R...)
		if hasOrder {
			desc := ordDraw[0][1] == 1
			sub += " ORDER BY r.id"
			if desc {
				sub += " DESC"
			}
			sort.SliceStable(rows, func(i, j int) bool {
				if desc {
					return rows[i][3].Str > rows[j][3].Str
				}
				return rows[i][3].Str < rows[j][3].Str
			})
		}
		sub += fmt.Sprintf(" LIMIT %d", n)
		if n < len(rows) {
			rows = rows[:n]
		}
		base = "SELECT l.k AS a, l.v AS b, l.id AS c, x.v AS d, x.id AS e FROM sim.l l LOOKUP JOIN (" + sub + ") x ON l.k = x.k"
		cols = []string{"a", "b", "c", "d", "e"}
		for _, row := range RefJoin(JoinInner, rowsToMS(L), rowsToMS(rows), []int{0}, []int{0}, 4, 4, false, nil).Rows() {
			want.Add([]octosql.Value{row[0], row[2], row[3], row[6], row[7]}, 1)
		}
	case 4:
		base = "SELECT DISTINCT l.k AS a, l.k2 AS b FROM sim.l l"
		cols = []string{"a", "b"}
		for _, row := range L {
			pr := []octosql.Value{row[0], row[1]}
			if want.Count(pr) == 0 {
				want.Add(pr, 1)
			}
		}
	}
	var ord []c05Order
	if (hasOrder || nest == 3 || nest == 5) && nest != 6 {
		for i := 0; i < nOrd; i++ {
			c := ordDraw[i][0] % len(cols)
			dup := false
			for _, o := range ord {
				dup = dup || o.col == c
			}
			if !dup {
				ord = append(ord, c05Order{col: c, desc: ordDraw[i][1] == 1})
			}
		}
	}
	qual := ""
	if shape == 3 {
		qual = "" // group-by output columns are referred to by their own names
	}
	var sql string
	expect := want.Total()
	min := func(a, b int) int {
		if a < b {
			return a
		}
		return b
	}
	innerOrd := ""
	if len(ord) > 0 && nest != 3 {
		innerOrd = c05OrderSQL(ord, cols, qual)
	}
	topOrdered := false
	switch nest {
	case 0: // A
		sql = fmt.Sprintf("%s%s LIMIT %d", base, innerOrd, n)
		expect = min(n, expect)
		topOrdered = len(ord) > 0
	case 1: // B
		sql = fmt.Sprintf("SELECT * FROM (%s%s LIMIT %d) x", base, innerOrd, n)
		expect = min(n, expect)
	case 2: // C
		sql = fmt.Sprintf("SELECT * FROM (%s%s LIMIT %d) x LIMIT %d", base, innerOrd, n, n2)
		expect = min(n2, min(n, expect))
	case 3: // D
		sql = fmt.Sprintf("SELECT * FROM (%s LIMIT %d) x%s", base, n, c05OrderSQL(ord, cols, "x."))
		expect = min(n, expect)
		if outerLimit {
			sql += fmt.Sprintf(" LIMIT %d", n2)
			expect = min(n2, expect)
		}
		topOrdered = true
	case 4: // E
		sql = fmt.Sprintf("WITH x AS (%s%s LIMIT %d) SELECT * FROM x x", base, innerOrd, n)
		expect = min(n, expect)
	case 5: // F
		sql = base + innerOrd
		topOrdered = true
	case 6: // the LIMIT is inside the joined side: the whole result is expected
		sql = base
	}

	attrs := map[string]string{"mode": mode, "shape": []string{"single", "inner_join", "outer_join", "group_by_counting", "distinct", "changelog", "lookup_join_limit_subquery"}[shape],
		"nest": []string{"top", "subquery", "subquery_outer_limit", "subquery_outer_order", "with", "order_only", "joined_side"}[nest]}
	r.Log("sql: %s", sql)
	r.Log("mode=%s optimize=%v sticky=%d jumps=%v", mode, optimize, sticky, jumps)
	if shape == 5 {
		r.Log("l: %s", ScriptString(changelog))
	} else {
		r.Log("l: %s", tableString(L))
	}
	if twoSources {
		r.Log("r: %s", tableString(R))
	}
	r.Log("reference result: %s", want)
	r.Shape(shape, outerKind, mode, nest, len(ord), n, n2, outerLimit, optimize, countingN, eosToo, where, len(L), len(R), len(changelog))

	ctl := NewCtl()
	lScript := rowsToScript(L)
	if shape == 5 {
		lScript = changelog
	}
	tables := map[string]*SimTable{
		"l": {Fields: c02Fields(), TimeField: -1, NoRetractions: shape != 5,
			Source: func() execution.Node { return &ScriptSource{Name: "L", Msgs: lScript, Ctl: ctl} }},
		"r": {Fields: c02Fields(), TimeField: -1, NoRetractions: true,
			Source: func() execution.Node { return &ScriptSource{Name: "R", Msgs: rowsToScript(R), Ctl: ctl} }},
	}
	var last byte
	var schedule []byte
	jumped := 0
	ctl.OnRelease = func(key string) {
		last = key[0]
		schedule = append(schedule, key[0])
		if strings.HasSuffix(key, "eos") {
			schedule = append(schedule, '$')
		}
		if jumps && t.Draw(3) == 0 {
			// the clock moves on between two messages: the live table redraws
			time.Sleep(300 * time.Millisecond)
			schedule = append(schedule, '~')
			jumped++
		}
	}
	choose := func(en []string) int {
		if last != 0 && t.Draw(100) < sticky {
			for i := range en {
				if en[i][0] == last {
					return i
				}
			}
		}
		return t.Draw(len(en))
	}
	text, oc := RunCLI(r, sql, tables, optimize, mode, ctl, choose, 20000)
	r.FaultN("clock_jump", jumped)
	r.AddSimTime(int64(jumped) * int64(300*time.Millisecond))
	r.Sched(string(schedule), tableString(L), tableString(R), ScriptString(changelog))
	r.NonTrivial(len(lScript)+len(R) >= 2)
	if oc.Deadlock {
		r.Violate("C05", "deadlock", attrs, "query neither finished nor has any source message left to deliver")
		return
	}
	if !oc.Finished {
		r.Infra("step cap reached")
		return
	}
	r.Log("printed:\n%s", ansiRe.ReplaceAllString(text, ""))
	if oc.Err != nil {
		if strings.HasPrefix(oc.Err.Error(), "couldn't run query") || strings.HasPrefix(oc.Err.Error(), "panic") {
			r.Violate("C05", "run_error", attrs, "query failed on valid input: %v", oc.Err)
		} else {
			r.Infra("query did not plan: %v", oc.Err)
		}
		return
	}
	printed, err := DecodePrinted(mode, cols, text)
	if err != nil {
		r.Violate("C05", "unreadable_output", attrs, "%v", err)
		return
	}
	r.AddEvents(len(printed))
	// rows finally shown: stream_native prints a changelog, everything else plain rows
	var rows [][]octosql.Value
	sawRetraction := false
	got := NewMS()
	for _, p := range printed {
		if p.Retr {
			sawRetraction = true
			got.Add(p.Values, -1)
		} else {
			got.Add(p.Values, 1)
		}
	}
	if neg, bad := got.HasNegative(); bad {
		r.Violate("C05", "negative_multiplicity", attrs, "row %s retracted more often than printed", neg)
		return
	}
	if sawRetraction {
		r.Probe("stream_native_printed_retractions")
		rows = got.Rows()
	} else {
		for _, p := range printed {
			rows = append(rows, p.Values)
		}
	}
	if len(rows) < want.Total() {
		r.Probe("limit_cut_rows")
	}
	if oc.Leaked > 0 {
		r.Probe("stopped_early_with_sources_unfinished")
	}
	// 1. exactly min(n, rows) rows
	if len(rows) != expect {
		r.Violate("C05", "row_count", attrs, "%d rows printed, want min(limit, %d result rows) = %d; printed %s", len(rows), want.Total(), expect, got)
		return
	}
	// 2. every printed row is a row of the result, no more often than it occurs there
	for _, row := range got.Rows() {
		if got.Count(row) > want.Count(row) {
			r.Violate("C05", "not_a_result_row", attrs, "row %s printed %d times but occurs %d times in the result", RowString(row), got.Count(row), want.Count(row))
			return
		}
	}
	if len(ord) == 0 {
		return
	}
	// 3. under ORDER BY: printed in sort order (top level), and the rows are the first n of the sort order
	if topOrdered && !sawRetraction {
		for i := 1; i < len(rows); i++ {
			if c05KeyCmp(rows[i-1], rows[i], ord) > 0 {
				r.Violate("C05", "not_sorted", attrs, "row %d %s printed before %s", i-1, RowString(rows[i-1]), RowString(rows[i]))
				return
			}
		}
	}
	wantKeys := c05SortedKeys(want.Rows(), ord)
	gotKeys := c05SortedKeys(rows, ord)
	switch nest {
	case 0, 1, 4, 5: // ORDER BY and LIMIT at the same level, nothing cut afterwards
		for i := range gotKeys {
			if gotKeys[i] != wantKeys[i] {
				r.Violate("C05", "not_first_n", attrs, "sort keys of the printed rows %v, first %d of the sort order are %v", gotKeys, len(gotKeys), wantKeys[:len(gotKeys)])
				return
			}
		}
	case 2: // an outer LIMIT took some of the first n: all of them must be among the first n
		first := map[string]int{}
		for _, k := range wantKeys[:min(n, len(wantKeys))] {
			first[k]++
		}
		for _, k := range gotKeys {
			first[k]--
			if first[k] < 0 {
				r.Violate("C05", "not_first_n", attrs, "a printed row has sort key %s, which is not among the first %d of the sort order %v", k, n, wantKeys[:min(n, len(wantKeys))])
				return
			}
		}
	}
}

var _ physical.Schema
