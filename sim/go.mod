module verif/sim

go 1.26.8

require github.com/cube2222/octosql v0.0.0

require (
	github.com/Masterminds/semver v1.5.0 // indirect
	github.com/adrg/xdg v0.4.0 // indirect
	github.com/google/btree v1.1.2 // indirect
	github.com/mitchellh/go-homedir v1.1.0 // indirect
	github.com/oklog/ulid/v2 v2.0.2 // indirect
	github.com/segmentio/fasthash v1.0.3 // indirect
	github.com/tidwall/btree v1.3.1 // indirect
	github.com/zyedidia/generic v1.1.0 // indirect
	golang.org/x/exp v0.0.0-20220414153411-bcd21879b8fd // indirect
	gopkg.in/yaml.v3 v3.0.1 // indirect
)

replace github.com/cube2222/octosql => /repo
