module verif/sim

go 1.26.8

require github.com/cube2222/octosql v0.0.0

require (
	github.com/Masterminds/semver v1.5.0 // indirect
	github.com/adrg/xdg v0.4.0 // indirect
	github.com/awalterschulze/gographviz v2.0.3+incompatible // indirect
	github.com/cespare/xxhash v1.1.0 // indirect
	github.com/dgraph-io/ristretto v0.0.3 // indirect
	github.com/fsnotify/fsnotify v1.4.9 // indirect
	github.com/golang/protobuf v1.5.3 // indirect
	github.com/google/btree v1.1.2 // indirect
	github.com/mitchellh/go-homedir v1.1.0 // indirect
	github.com/nxadm/tail v1.4.8 // indirect
	github.com/oklog/ulid/v2 v2.0.2 // indirect
	github.com/pkg/errors v0.9.1 // indirect
	github.com/segmentio/fasthash v1.0.3 // indirect
	github.com/tidwall/btree v1.3.1 // indirect
	github.com/valyala/fastjson v1.6.3 // indirect
	github.com/zyedidia/generic v1.1.0 // indirect
	golang.org/x/exp v0.0.0-20220414153411-bcd21879b8fd // indirect
	golang.org/x/sys v0.8.0 // indirect
	google.golang.org/protobuf v1.30.0 // indirect
	gopkg.in/tomb.v1 v1.0.0-20141024135613-dd632973f1e7 // indirect
	gopkg.in/yaml.v3 v3.0.1 // indirect
)

replace github.com/cube2222/octosql => /repo
