module verif/sim

go 1.26.8

require github.com/cube2222/octosql v0.0.0

replace github.com/cube2222/octosql => /repo

// the rest is /repo/go.mod verbatim (requirements and replace directives of the main module are not inherited)

require (
	github.com/Masterminds/semver v1.5.0
	github.com/adrg/xdg v0.4.0
	github.com/awalterschulze/gographviz v2.0.3+incompatible
	github.com/c-bata/go-prompt v0.2.6
	github.com/dgraph-io/ristretto v0.0.3
	github.com/golang/protobuf v1.5.3
	github.com/google/btree v1.1.2
	github.com/gosuri/uilive v0.0.4
	github.com/jackc/pgx v3.6.2+incompatible
	github.com/kr/text v0.2.0
	github.com/mholt/archiver v3.1.1+incompatible
	github.com/mitchellh/go-homedir v1.1.0
	github.com/nxadm/tail v1.4.8
	github.com/oklog/ulid/v2 v2.0.2
	github.com/olekukonko/tablewriter v0.0.5
	github.com/pkg/errors v0.9.1
	github.com/pkg/profile v1.6.0
	github.com/pmezard/go-difflib v1.0.0
	github.com/segmentio/fasthash v1.0.3
	github.com/segmentio/parquet-go v0.0.0-20220421002521-93f8e5ed3407
	github.com/skratchdot/open-golang v0.0.0-20200116055534-eef842397966
	github.com/spf13/cobra v1.4.0
	github.com/stretchr/testify v1.7.0
	github.com/tidwall/btree v1.3.1
	github.com/valyala/fastjson v1.6.3
	github.com/zyedidia/generic v1.1.0
	golang.org/x/exp v0.0.0-20220414153411-bcd21879b8fd
	google.golang.org/grpc v1.55.0
	google.golang.org/protobuf v1.30.0
	gopkg.in/yaml.v3 v3.0.1
)

require (
	github.com/andybalholm/brotli v1.0.3 // indirect
	github.com/cespare/xxhash v1.1.0 // indirect
	github.com/cockroachdb/apd v1.1.0 // indirect
	github.com/davecgh/go-spew v1.1.1 // indirect
	github.com/dsnet/compress v0.0.1 // indirect
	github.com/frankban/quicktest v1.14.0 // indirect
	github.com/fsnotify/fsnotify v1.4.9 // indirect
	github.com/gofrs/uuid v4.0.0+incompatible // indirect
	github.com/golang/snappy v0.0.4 // indirect
	github.com/google/uuid v1.3.0 // indirect
	github.com/inconshreveable/mousetrap v1.0.0 // indirect
	github.com/jackc/fake v0.0.0-20150926172116-812a484cc733 // indirect
	github.com/klauspost/compress v1.15.2 // indirect
	github.com/lib/pq v1.9.0 // indirect
	github.com/mattn/go-colorable v0.1.12 // indirect
	github.com/mattn/go-isatty v0.0.14 // indirect
	github.com/mattn/go-runewidth v0.0.13 // indirect
	github.com/mattn/go-tty v0.0.3 // indirect
	github.com/nwaples/rardecode v1.1.2 // indirect
	github.com/pierrec/lz4 v2.6.1+incompatible // indirect
	github.com/pierrec/lz4/v4 v4.1.9 // indirect
	github.com/pkg/term v1.2.0-beta.2 // indirect
	github.com/rivo/uniseg v0.2.0 // indirect
	github.com/segmentio/encoding v0.3.5 // indirect
	github.com/shopspring/decimal v1.2.0 // indirect
	github.com/spf13/pflag v1.0.5 // indirect
	github.com/ulikunitz/xz v0.5.10 // indirect
	github.com/xi2/xz v0.0.0-20171230120015-48954b6210f8 // indirect
	golang.org/x/crypto v0.9.0 // indirect
	golang.org/x/net v0.10.0 // indirect
	golang.org/x/sys v0.8.0 // indirect
	golang.org/x/text v0.9.0 // indirect
	google.golang.org/genproto v0.0.0-20230306155012-7f2fa6fef1f4 // indirect
	gopkg.in/check.v1 v1.0.0-20201130134442-10cb98267c6c // indirect
	gopkg.in/tomb.v1 v1.0.0-20141024135613-dd632973f1e7 // indirect
)

replace github.com/segmentio/parquet-go v0.0.0-20220421002521-93f8e5ed3407 => github.com/cube2222/parquet-go v0.0.0-20220512155810-0e06eee50261
