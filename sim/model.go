package sim

import (
	"fmt"
	"math"
	"sort"
	"strings"

	"github.com/cube2222/octosql/octosql"
)

// RowKey is an independent structural encoding of a row, used for multiset
// equality. It deliberately does not use octosql's Compare or Hash, so a
// broken Compare cannot make model and implementation agree by accident.
func RowKey(vs []octosql.Value) string {
	var b strings.Builder
	for i := range vs {
		encodeValue(&b, vs[i])
		b.WriteByte(';')
	}
	return b.String()
}

func encodeValue(b *strings.Builder, v octosql.Value) {
	switch v.TypeID {
	case octosql.TypeIDNull:
		b.WriteString("N")
	case octosql.TypeIDInt:
		fmt.Fprintf(b, "I%d", v.Int)
	case octosql.TypeIDFloat:
		fmt.Fprintf(b, "F%016x", math.Float64bits(v.Float))
	case octosql.TypeIDBoolean:
		if v.Boolean {
			b.WriteString("B1")
		} else {
			b.WriteString("B0")
		}
	case octosql.TypeIDString:
		fmt.Fprintf(b, "S%d:%s", len(v.Str), v.Str)
	case octosql.TypeIDTime:
		fmt.Fprintf(b, "T%d", v.Time.UnixNano())
	case octosql.TypeIDDuration:
		fmt.Fprintf(b, "D%d", int64(v.Duration))
	case octosql.TypeIDList:
		b.WriteString("L(")
		for i := range v.List {
			encodeValue(b, v.List[i])
			b.WriteByte(',')
		}
		b.WriteString(")")
	case octosql.TypeIDStruct:
		b.WriteString("R(")
		for i := range v.Struct {
			encodeValue(b, v.Struct[i])
			b.WriteByte(',')
		}
		b.WriteString(")")
	case octosql.TypeIDTuple:
		b.WriteString("U(")
		for i := range v.Tuple {
			encodeValue(b, v.Tuple[i])
			b.WriteByte(',')
		}
		b.WriteString(")")
	default:
		fmt.Fprintf(b, "?%d", int(v.TypeID))
	}
}

// MS is a signed multiset of rows.
type MS struct {
	n    map[string]int
	repr map[string][]octosql.Value
}

func NewMS() *MS {
	return &MS{n: map[string]int{}, repr: map[string][]octosql.Value{}}
}

func (m *MS) Add(vs []octosql.Value, delta int) int {
	k := RowKey(vs)
	m.n[k] += delta
	c := m.n[k]
	if c == 0 {
		delete(m.n, k)
		delete(m.repr, k)
	} else if _, ok := m.repr[k]; !ok {
		m.repr[k] = vs
	}
	return c
}

func (m *MS) Count(vs []octosql.Value) int { return m.n[RowKey(vs)] }

func (m *MS) Len() int { return len(m.n) }

func (m *MS) Total() int {
	t := 0
	for _, c := range m.n {
		t += c
	}
	return t
}

func (m *MS) Clone() *MS {
	o := NewMS()
	for k, c := range m.n {
		o.n[k] = c
		o.repr[k] = m.repr[k]
	}
	return o
}

// Rows returns rows with positive multiplicity, expanded, in key order.
func (m *MS) Rows() [][]octosql.Value {
	keys := m.sortedKeys()
	var out [][]octosql.Value
	for _, k := range keys {
		for i := 0; i < m.n[k]; i++ {
			out = append(out, m.repr[k])
		}
	}
	return out
}

func (m *MS) sortedKeys() []string {
	keys := make([]string, 0, len(m.n))
	for k := range m.n {
		keys = append(keys, k)
	}
	sort.Strings(keys)
	return keys
}

// HasNegative reports a row with negative multiplicity.
func (m *MS) HasNegative() (string, bool) {
	for _, k := range m.sortedKeys() {
		if m.n[k] < 0 {
			return RowString(m.repr[k]), true
		}
	}
	return "", false
}

// Diff describes the difference between two multisets ("" when equal).
func (m *MS) Diff(want *MS) string {
	var parts []string
	seen := map[string]bool{}
	for _, k := range m.sortedKeys() {
		seen[k] = true
		if m.n[k] != want.n[k] {
			parts = append(parts, fmt.Sprintf("%s got=%d want=%d", RowString(m.repr[k]), m.n[k], want.n[k]))
		}
	}
	for _, k := range want.sortedKeys() {
		if !seen[k] && want.n[k] != 0 {
			parts = append(parts, fmt.Sprintf("%s got=0 want=%d", RowString(want.repr[k]), want.n[k]))
		}
	}
	if len(parts) > 6 {
		parts = append(parts[:6], fmt.Sprintf("... (%d more)", len(parts)-6))
	}
	return strings.Join(parts, "; ")
}

func (m *MS) String() string {
	var parts []string
	for _, k := range m.sortedKeys() {
		parts = append(parts, fmt.Sprintf("%s x%d", RowString(m.repr[k]), m.n[k]))
	}
	return "{" + strings.Join(parts, ", ") + "}"
}

// ---- relational join reference model ----

type JoinKind int

const (
	JoinInner JoinKind = iota
	JoinLeft
	JoinRight
	JoinFull
)

func (k JoinKind) String() string {
	return [...]string{"inner", "left", "right", "full"}[k]
}

// valuesEqualSQL is SQL equality for join keys: NULL never equals anything.
// nullEq=true gives "NULL matches NULL" (used only where a property says so).
func keyEqual(a, b []octosql.Value, nullEq bool) bool {
	for i := range a {
		if a[i].TypeID == octosql.TypeIDNull || b[i].TypeID == octosql.TypeIDNull {
			if nullEq && a[i].TypeID == b[i].TypeID {
				continue
			}
			return false
		}
		var x, y strings.Builder
		encodeValue(&x, a[i])
		encodeValue(&y, b[i])
		if x.String() != y.String() {
			return false
		}
	}
	return true
}

func project(row []octosql.Value, idx []int) []octosql.Value {
	out := make([]octosql.Value, len(idx))
	for i, j := range idx {
		out[i] = row[j]
	}
	return out
}

// RefJoin computes the SQL join of two row multisets by nested loops.
// theta, when non-nil, is an extra predicate on (l, r).
func RefJoin(kind JoinKind, left, right *MS, lkey, rkey []int, lwidth, rwidth int, nullEq bool, theta func(l, r []octosql.Value) bool) *MS {
	out := NewMS()
	lrows, rrows := left.Rows(), right.Rows()
	rmatched := make([]bool, len(rrows))
	for _, l := range lrows {
		matched := false
		for ri, r := range rrows {
			if keyEqual(project(l, lkey), project(r, rkey), nullEq) && (theta == nil || theta(l, r)) {
				matched = true
				rmatched[ri] = true
				out.Add(concat(l, r), 1)
			}
		}
		if !matched && (kind == JoinLeft || kind == JoinFull) {
			out.Add(concat(l, nulls(rwidth)), 1)
		}
	}
	if kind == JoinRight || kind == JoinFull {
		for ri, r := range rrows {
			if !rmatched[ri] {
				out.Add(concat(nulls(lwidth), r), 1)
			}
		}
	}
	return out
}

func concat(a, b []octosql.Value) []octosql.Value {
	out := make([]octosql.Value, 0, len(a)+len(b))
	out = append(out, a...)
	return append(out, b...)
}

func nulls(n int) []octosql.Value {
	out := make([]octosql.Value, n)
	for i := range out {
		out[i] = octosql.NewNull()
	}
	return out
}
