package sim

import (
	"fmt"
	"io"
	"os"
	"path/filepath"
	"sync/atomic"
	"syscall"

	"github.com/cube2222/octosql/helpers/simhook"
)

// The simulated disk: files.OpenLocalFile (hook H1) hands every local file it
// opens to WrapFileFn. Per (path, open ordinal) the current run's plan decides
// the sizes of the reads served (short reads), an optional read error after k
// bytes, and whether each read parks on a gate.
//
// Race-detector hygiene: the plan is fixed before the run starts and only read
// afterwards; counters are atomics; no mutex is shared between goroutines of
// the system under test.

type OpenPlan struct {
	Chunks []int // read i serves at most Chunks[i % len] bytes; empty = unlimited
	ErrAt  int64 // serve exactly ErrAt bytes, then fail with EIO; <0 = never
	Gate   bool  // park on "disk.read:<base>:<n>" before every read
}

type diskFile struct {
	plans []OpenPlan
	rest  *OpenPlan // plan of every open beyond the listed ones (nil: plain)
	opens atomic.Int32
}

type Disk struct {
	files      map[string]*diskFile // fixed before the run
	ctl        *Ctl
	readErrors atomic.Int64
	shortReads atomic.Int64
}

// Fired reports how often each fault kind actually happened.
func (d *Disk) FiredCount(kind string) int {
	switch kind {
	case "read_error":
		return int(d.readErrors.Load())
	case "short_read":
		return int(d.shortReads.Load())
	}
	return 0
}

type simState struct {
	ctl   *Ctl
	disk  *Disk
	sites map[string]bool
}

var currentSim atomic.Pointer[simState]

func init() {
	simhook.WrapFileFn = func(path string, f *os.File) io.Reader {
		raceOff()
		st := currentSim.Load()
		raceOn()
		if st == nil || st.disk == nil {
			return nil
		}
		return st.disk.wrap(path, f)
	}
	simhook.YieldFn = func(site string, id int64) {
		raceOff()
		st := currentSim.Load()
		raceOn()
		if st == nil || st.ctl == nil {
			return
		}
		// site may carry a ":<path>" tag; gating is decided by the bare site name
		bare := site
		for i := 0; i < len(site); i++ {
			if site[i] == ':' {
				bare = site[:i]
				break
			}
		}
		if !st.sites[bare] {
			return
		}
		if len(bare) < len(site) {
			site = bare + ":" + filepath.Base(site[len(bare)+1:])
		}
		st.ctl.Park(fmt.Sprintf("%s:%05d", site, id))
	}
}

// installSim makes ctl/disk the current run's controller and disk (nil to clear).
func installSim(ctl *Ctl, disk *Disk, sites ...string) {
	if ctl == nil && disk == nil {
		raceOff()
		currentSim.Store(nil)
		raceOn()
		return
	}
	st := &simState{ctl: ctl, disk: disk, sites: map[string]bool{}}
	for _, s := range sites {
		st.sites[s] = true
	}
	raceOff()
	currentSim.Store(st)
	raceOn()
}

func NewDisk(r *Run, ctl *Ctl) *Disk {
	return &Disk{files: map[string]*diskFile{}, ctl: ctl}
}

// PlanRest sets the plan of every open of base beyond the explicitly planned ones.
func (d *Disk) PlanRest(base string, p OpenPlan) {
	f := d.files[base]
	if f == nil {
		f = &diskFile{}
		d.files[base] = f
	}
	f.rest = &p
}

// Plan must be called before the run starts.
func (d *Disk) Plan(base string, ordinal int, p OpenPlan) {
	f := d.files[base]
	if f == nil {
		f = &diskFile{}
		d.files[base] = f
	}
	for len(f.plans) <= ordinal {
		f.plans = append(f.plans, OpenPlan{ErrAt: -1})
	}
	f.plans[ordinal] = p
}

func (d *Disk) wrap(path string, f *os.File) io.Reader {
	base := filepath.Base(path)
	df := d.files[base]
	if df == nil {
		return nil
	}
	n := int(df.opens.Add(1)) - 1
	var p OpenPlan
	switch {
	case n < len(df.plans):
		p = df.plans[n]
	case df.rest != nil:
		p = *df.rest
	default:
		return nil
	}
	if len(p.Chunks) == 0 && p.ErrAt < 0 && !p.Gate {
		return nil
	}
	return &simFile{d: d, f: f, base: base, ordinal: n, plan: p}
}

type simFile struct {
	d       *Disk
	f       *os.File
	base    string
	ordinal int
	plan    OpenPlan
	reads   int
	served  int64
}

func (s *simFile) Read(p []byte) (int, error) {
	if s.plan.Gate && s.d.ctl != nil {
		if !s.d.ctl.Park(fmt.Sprintf("disk.read:%s:%d:%05d", s.base, s.ordinal, s.reads)) {
			return 0, errAborted
		}
	}
	if s.plan.ErrAt >= 0 && s.served >= s.plan.ErrAt {
		s.d.readErrors.Add(1)
		return 0, &os.PathError{Op: "read", Path: s.base, Err: syscall.EIO}
	}
	limit := len(p)
	restricted := false
	if len(s.plan.Chunks) > 0 {
		c := s.plan.Chunks[s.reads%len(s.plan.Chunks)]
		if c > 0 && c < limit {
			limit = c
			restricted = true
		}
	}
	if s.plan.ErrAt >= 0 && int64(limit) > s.plan.ErrAt-s.served {
		limit = int(s.plan.ErrAt - s.served)
	}
	s.reads++
	n, err := s.f.Read(p[:limit])
	if restricted && n > 0 {
		s.d.shortReads.Add(1)
	}
	s.served += int64(n)
	return n, err
}
