package sim

import (
	"fmt"
	"io"
	"os"
	"path/filepath"
	"sync"
	"syscall"

	"github.com/cube2222/octosql/helpers/simhook"
)

// The simulated disk: files.OpenLocalFile (hook H1) hands every local file it
// opens to WrapFileFn. Per (path, open ordinal) the current run's plan decides
// the sizes of the reads served (short reads), an optional read error after k
// bytes, and whether each read parks on a gate.

type OpenPlan struct {
	Chunks []int // read i serves at most Chunks[i % len] bytes; empty = unlimited
	ErrAt  int64 // serve exactly ErrAt bytes, then fail with EIO; <0 = never
	Gate   bool  // park on "disk.read:<base>:<n>" before every read
}

type Disk struct {
	mu    sync.Mutex
	plans map[string][]OpenPlan // by base name; index = open ordinal (0-based); beyond the list: plain
	opens map[string]int
	ctl   *Ctl
	run   *Run
	Fired map[string]int
}

var (
	simMu       sync.Mutex
	currentDisk *Disk
	currentCtl  *Ctl
	gatedSites  map[string]bool
)

func init() {
	simhook.WrapFileFn = func(path string, f *os.File) io.Reader {
		simMu.Lock()
		d := currentDisk
		simMu.Unlock()
		if d == nil {
			return nil
		}
		return d.wrap(path, f)
	}
	simhook.YieldFn = func(site string, id int64) {
		simMu.Lock()
		c := currentCtl
		on := false
		if c != nil {
			// site may carry a ":<path>" tag; gating is decided by the bare site name
			bare := site
			for i := 0; i < len(site); i++ {
				if site[i] == ':' {
					bare = site[:i]
					break
				}
			}
			on = gatedSites[bare]
			if on && len(bare) < len(site) {
				site = bare + ":" + filepath.Base(site[len(bare)+1:])
			}
		}
		simMu.Unlock()
		if on {
			c.Park(fmt.Sprintf("%s:%05d", site, id))
		}
	}
}

// installSim makes ctl/disk the current run's controller and disk (nil to clear).
func installSim(ctl *Ctl, disk *Disk, sites ...string) {
	simMu.Lock()
	currentCtl = ctl
	currentDisk = disk
	gatedSites = map[string]bool{}
	for _, s := range sites {
		gatedSites[s] = true
	}
	simMu.Unlock()
}

func NewDisk(r *Run, ctl *Ctl) *Disk {
	return &Disk{plans: map[string][]OpenPlan{}, opens: map[string]int{}, ctl: ctl, run: r, Fired: map[string]int{}}
}

func (d *Disk) Plan(base string, ordinal int, p OpenPlan) {
	for len(d.plans[base]) <= ordinal {
		d.plans[base] = append(d.plans[base], OpenPlan{ErrAt: -1})
	}
	d.plans[base][ordinal] = p
}

func (d *Disk) wrap(path string, f *os.File) io.Reader {
	base := filepath.Base(path)
	d.mu.Lock()
	n := d.opens[base]
	d.opens[base]++
	var p *OpenPlan
	if n < len(d.plans[base]) {
		pp := d.plans[base][n]
		p = &pp
	}
	d.mu.Unlock()
	if p == nil || (len(p.Chunks) == 0 && p.ErrAt < 0 && !p.Gate) {
		return nil
	}
	return &simFile{d: d, f: f, base: base, ordinal: n, plan: *p}
}

type simFile struct {
	d       *Disk
	f       *os.File
	base    string
	ordinal int
	plan    OpenPlan
	reads   int
	served  int64
}

func (s *simFile) Read(p []byte) (int, error) {
	if s.plan.Gate && s.d.ctl != nil {
		if !s.d.ctl.Park(fmt.Sprintf("disk.read:%s:%d:%05d", s.base, s.ordinal, s.reads)) {
			return 0, errAborted
		}
	}
	if s.plan.ErrAt >= 0 && s.served >= s.plan.ErrAt {
		s.d.mu.Lock()
		s.d.Fired["read_error"]++
		s.d.mu.Unlock()
		return 0, &os.PathError{Op: "read", Path: s.base, Err: syscall.EIO}
	}
	limit := len(p)
	restricted := false
	if len(s.plan.Chunks) > 0 {
		c := s.plan.Chunks[s.reads%len(s.plan.Chunks)]
		if c > 0 && c < limit {
			limit = c
			restricted = true
		}
	}
	if s.plan.ErrAt >= 0 && int64(limit) > s.plan.ErrAt-s.served {
		limit = int(s.plan.ErrAt - s.served)
	}
	s.reads++
	n, err := s.f.Read(p[:limit])
	if restricted && n > 0 {
		s.d.mu.Lock()
		s.d.Fired["short_read"]++
		s.d.mu.Unlock()
	}
	s.served += int64(n)
	return n, err
}
