package sim

import (
	"fmt"
	"time"

	"github.com/cube2222/octosql/execution"
	"github.com/cube2222/octosql/octosql"
	"github.com/cube2222/octosql/outputs/stream"
)

func init() { register("c22", checkC22) }

func recIdentity(vals []octosql.Value, retr bool, et time.Time) string {
	return fmt.Sprintf("%s|%v|%d", RowKey(vals), retr, et.UnixNano())
}

// checkC22: the real InternallyConsistentOutputStreamWrapper over a scripted
// source. At every forwarded watermark W: consolidated emitted == consolidated
// input (delivered so far) with event time <= W; every emitted record is
// identical to an input record and not emitted more often than received; at
// end of stream consolidated emitted == consolidated input.
func checkC22(r *Run) {
	t := r.Tape
	hdr := t.Block(4)
	maxSteps := 8
	if r.Thorough() {
		maxSteps = []int{6, 12, 24}[hdr.Draw(3)]
	}
	watermarked := hdr.Chance(4, 5)
	dom := 1 + hdr.Draw(3)
	// small domains, so that duplicates and matching retractions are common; the third column takes
	// composite values of which one is a prefix of another, NULL, and strings differing in case
	third := []octosql.Value{
		octosql.NewNull(), octosql.NewList(nil), octosql.NewList([]octosql.Value{intv(1)}), octosql.NewList([]octosql.Value{intv(1), intv(2)}),
		strv("a"), strv("A"), octosql.NewStruct([]octosql.Value{intv(1), octosql.NewNull()}), octosql.NewFloat(1),
	}
	wide := hdr.Chance(1, 2)
	row := func(t *Tape, i, sec int) []octosql.Value {
		if wide {
			return []octosql.Value{intv(1 + t.Draw(dom)), intv(t.Draw(2)), third[t.Draw(len(third))]}
		}
		return []octosql.Value{intv(1 + t.Draw(dom)), intv(t.Draw(2))}
	}
	script := GenChangelog(t.Block(stepBlock*maxSteps+10), ChangelogCfg{MaxSteps: maxSteps, Watermarked: watermarked, Retractions: true, Dups: true,
		Row: row, FinalWM: true, ZeroTimeMix: true, RepeatWM: true})
	attrs := map[string]string{"node": "InternallyConsistentOutputStreamWrapper"}
	r.Log("watermarked=%v", watermarked)
	r.Log("in: %s", ScriptString(script))
	r.Shape(watermarked, scriptShape(script))
	r.Sched(ScriptString(script))
	r.NonTrivial(len(script) >= 2)
	r.AddSimTime(int64(len(script)) * int64(time.Second))

	var delivered []deliveredRec
	inIdent := map[string]int{}
	src := &ScriptSource{Name: "S", Msgs: script}
	src.OnDeliver = func(i int) {
		if m := script[i]; m.Kind == MsgRec {
			delivered = append(delivered, deliveredRec{m.Values, m.Retr, m.ET})
			inIdent[recIdentity(m.Values, m.Retr, m.ET)]++
		}
	}
	node := &stream.InternallyConsistentOutputStreamWrapper{Source: src}
	emitted := NewMS()
	outIdent := map[string]int{}
	nOut := 0
	produce := func(ctx execution.ProduceContext, rec execution.Record) error {
		r.SinkLog("  out %s", Msg{Kind: MsgRec, Values: rec.Values, Retr: rec.Retraction, ET: rec.EventTime})
		nOut++
		id := recIdentity(rec.Values, rec.Retraction, rec.EventTime)
		outIdent[id]++
		if outIdent[id] > inIdent[id] {
			r.Violate("C22", "not_in_input", attrs, "wrapper emitted %s which it did not receive (received %d times, emitted %d times)",
				Msg{Kind: MsgRec, Values: rec.Values, Retr: rec.Retraction, ET: rec.EventTime}, inIdent[id], outIdent[id])
		}
		if rec.Retraction {
			emitted.Add(rec.Values, -1)
		} else {
			emitted.Add(rec.Values, 1)
		}
		return nil
	}
	metaSend := func(ctx execution.ProduceContext, msg execution.MetadataMessage) error {
		r.SinkLog("  out wm(%s)", Sec(msg.Watermark))
		nOut++
		want := consolidateUpTo(delivered, msg.Watermark, false)
		if d := emitted.Diff(want); d != "" {
			r.Violate("C22", "at_watermark", attrs, "at forwarded watermark %s consolidated emitted != consolidated input with event time <= W: %s", Sec(msg.Watermark), d)
		}
		return nil
	}
	var err error
	func() {
		defer func() {
			if p := recover(); p != nil {
				err = fmt.Errorf("panic: %v", p)
			}
		}()
		err = node.Run(execution.ExecutionContext{Context: bubbleCtx()}, produce, metaSend)
	}()
	r.AddEvents(nOut)
	r.Log("run returned err=%v", err)
	if err != nil {
		r.Violate("C22", "run_error", attrs, "wrapper failed on a valid changelog: %v", err)
		return
	}
	want := consolidateUpTo(delivered, time.Time{}, true)
	if d := emitted.Diff(want); d != "" {
		r.Violate("C22", "at_end_of_stream", attrs, "by end of stream not everything was emitted: %s", d)
	}
}
