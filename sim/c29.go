package sim

import (
	"fmt"
	"os"
	"strings"

	"github.com/cube2222/octosql/execution"
	"github.com/cube2222/octosql/octosql"
	"github.com/cube2222/octosql/physical"
)

func init() {
	register("c29", func(r *Run) {
		r.OnlyProperty = "C29"
		before := raceLogSize()
		var what string
		pick := r.Tape.Weighted(6, 4, 6, 4, 8, 4, 1, 5)
		if v := os.Getenv("VERIF_C29_SCENARIO"); v != "" {
			pick = int(v[0] - '0') // diagnosis only
		}
		switch pick {
		case 0:
			what = "stream/outer join under a seeded schedule"
			joinScenario(r, "C29")
		case 1:
			what = "SQL join over sim tables"
			checkC02(r)
		case 2:
			what = "parallel JSON parsing"
			jsonFileScenario(r)
		case 3:
			what = "query with an injected fault (early stop on error)"
			checkC06(r)
		case 4:
			what = "JSON x JSON join with regexp filters, LIMIT, faults and a stalling sink"
			sharedStateScenario(r)
		case 5:
			what = "JSON LOOKUP JOIN JSON: the outer file's batches pile up while its consumer waits for the shared parser pool"
			nestedPoolScenario(r)
		case 6:
			what = "join stopped early (LIMIT / error) while an input still has more than a channel's worth of rows to deliver"
			bigInputEarlyStopScenario(r)
		case 7:
			what = "LIMIT / ORDER BY above joins, outer joins and triggers, through the real printers (query stopped early by LIMIT)"
			checkC05(r)
		}
		if after := raceLogSize(); after > before {
			report := raceLogTail(before)
			attrs := map[string]string{"kind": "data_race", "where": raceSite(report)}
			if raceInHarness(report) {
				r.Infra("race report whose access sites are both inside the simulator:\n%s", truncateStr(report, 1500))
				return
			}
			r.Violate("C29", "data_race", attrs, "the race detector reported a data race during %s:\n%s", what, truncateStr(report, 3000))
		}
	})
}

// The race detector writes its reports to GORACE=log_path=<prefix>; the file is <prefix>.<pid>.
func raceLogPath() string {
	for _, kv := range strings.Fields(os.Getenv("GORACE")) {
		if strings.HasPrefix(kv, "log_path=") {
			return fmt.Sprintf("%s.%d", strings.TrimPrefix(kv, "log_path="), os.Getpid())
		}
	}
	return ""
}

func raceLogSize() int64 {
	p := raceLogPath()
	if p == "" {
		return 0
	}
	st, err := os.Stat(p)
	if err != nil {
		return 0
	}
	return st.Size()
}

func raceLogTail(from int64) string {
	data, err := os.ReadFile(raceLogPath())
	if err != nil || int64(len(data)) < from {
		return ""
	}
	return string(data[from:])
}

// raceInHarness: both racing accesses (the first frame of the two access stacks
// of the first report) are in the simulator's own package.
func raceInHarness(report string) bool {
	lines := strings.Split(report, "\n")
	sites := 0
	inSim := 0
	for i, line := range lines {
		l := strings.TrimSpace(line)
		if (strings.Contains(l, " at 0x") && strings.Contains(l, " by ")) && i+1 < len(lines) {
			first := strings.TrimSpace(lines[i+1])
			// skip runtime frames (map access etc.) to the first non-runtime frame
			for j := i + 1; j < len(lines) && (strings.HasPrefix(first, "runtime.") || strings.HasPrefix(first, "/")); j++ {
				first = strings.TrimSpace(lines[j])
			}
			sites++
			if strings.HasPrefix(first, "verif/sim.") {
				inSim++
			}
			if sites == 2 {
				break
			}
		}
	}
	return sites == 2 && inSim == 2
}

// raceSite names the first octosql function in a race report (for the violation class).
func raceSite(report string) string {
	for _, line := range strings.Split(report, "\n") {
		line = strings.TrimSpace(line)
		if strings.HasPrefix(line, "github.com/cube2222/octosql/") {
			if i := strings.Index(line, "("); i > 0 && !strings.Contains(line[:i], ".func") {
				return strings.TrimPrefix(line[:i], "github.com/cube2222/octosql/")
			}
			f := strings.TrimPrefix(line, "github.com/cube2222/octosql/")
			if i := strings.LastIndex(f, "("); i > 0 {
				f = f[:i]
			}
			return f
		}
	}
	return "unknown"
}

// sharedStateScenario aims at state shared between goroutines of one query:
// JSON sources on both sides of a join (one global parser pool), LIKE / ~ / ~*
// filters in both join branches (shared regular-expression caches), a LIMIT or
// an injected malformed row stopping the query early, and a sink that stalls
// (back-pressure path of the JSON token channel). Gated: JSON worker and reader
// hand-offs, disk reads of both files, the stalling sink.
func sharedStateScenario(r *Run) {
	t := r.Tape
	hdr := t.Block(16)
	sizes := []int{1, 3, 64, 65, 130, 200}
	nA, nB := sizes[hdr.Draw(len(sizes))], sizes[hdr.Draw(len(sizes))]
	workers := 1 + hdr.Draw(8)
	joinSQL := []string{"JOIN", "LEFT JOIN", "OUTER JOIN"}[hdr.Draw(3)]
	limit := []int{-1, -1, 1, 3, 1000}[hdr.Draw(5)]
	badRow := -1
	if hdr.Chance(1, 3) {
		badRow = 100 + hdr.Draw(100) // beyond the schema preview, so the failure happens while running
	}
	stallEvery := []int{0, 0, 1, 5}[hdr.Draw(4)]
	gateDisk := hdr.Chance(1, 2)
	sticky := []int{0, 50, 90}[hdr.Draw(3)]
	optimize := hdr.Chance(2, 3)
	attrs := map[string]string{"scenario": "json_join_regexp"}

	write := func(name string, n int, bad int) error {
		var sb strings.Builder
		for i := 0; i < n; i++ {
			if i == bad {
				sb.WriteString(fmt.Sprintf(`{"id":%d,"g":%d,"s":"v%d" oops`, i, i%3, i) + "\n")
				continue
			}
			sb.WriteString(fmt.Sprintf(`{"id":%d,"g":%d,"s":"v%d"}`, i, i%3, i) + "\n")
		}
		return os.WriteFile(name, []byte(sb.String()), 0644)
	}
	if err := write("c29a.json", nA, -1); err != nil {
		r.Infra("write: %v", err)
		return
	}
	if err := write("c29b.json", nB, badRow); err != nil {
		r.Infra("write: %v", err)
		return
	}
	refA, refB := "c29a.json a", "c29b.json b"
	if hdr.Chance(1, 3) {
		// a LIMIT in each branch: two Limit nodes starting on the two input goroutines
		refA = fmt.Sprintf("(SELECT * FROM c29a.json x LIMIT %d) a", 1+nA/2)
		refB = fmt.Sprintf("(SELECT * FROM c29b.json y LIMIT %d) b", 1+nB)
		// A branch LIMIT cancels its file's line reader while the query goes on. Whether that reader notices the
		// cancellation before or after it asks for the next chunk is Go's choice between two ready select cases;
		// the hand-off gates know the context and stop being scheduling points then, a gated disk read does not
		// (a read has no context) and would make that choice visible in the schedule: no gated reads here.
		gateDisk = false
	}
	sql := "SELECT a.id, b.id FROM " + refA + " " + joinSQL + " " + refB + " ON a.g = b.g"
	if joinSQL == "JOIN" {
		// every pattern operator on both sides: pushed below the join, both input goroutines use the shared pattern caches
		sql += " WHERE a.s LIKE 'v%' AND b.s LIKE 'v%' AND a.s ~ '^v[0-9]+$' AND b.s ~ '^v[0-9]+$' AND a.s ~* '^V' AND b.s ~* '^V'"
	}
	if limit >= 0 {
		sql += fmt.Sprintf(" LIMIT %d", limit)
	}
	r.Log("sql: %s", sql)
	r.Log("a=%d rows b=%d rows (bad row %d) workers=%d stallEvery=%d gateDisk=%v sticky=%d optimize=%v", nA, nB, badRow, workers, stallEvery, gateDisk, sticky, optimize)
	r.Shape("shared", nA, nB, workers, joinSQL, limit, badRow >= 0 && badRow < nB, stallEvery, gateDisk, optimize)
	r.NonTrivial(nA+nB >= 2)

	ctl := NewCtl()
	disk := NewDisk(r, ctl)
	if gateDisk {
		disk.Plan("c29a.json", 1, OpenPlan{Chunks: []int{4096}, ErrAt: -1, Gate: true})
		disk.Plan("c29b.json", 1, OpenPlan{Chunks: []int{1000, 4096}, ErrAt: -1, Gate: true})
	}
	installSim(ctl, disk, "json.worker.send", "json.reader.submit", "json.reader.done", "json.consumer.loop")
	defer installSim(nil, nil)
	planned, err := PlanSQL(bubbleCtx(), sql, map[string]*SimTable{}, optimize)
	if err != nil {
		r.Infra("query did not plan: %v", err)
		return
	}
	nOut, nStall := 0, 0
	produce := func(ctx execution.ProduceContext, rec execution.Record) error {
		nOut++
		if stallEvery > 0 && nOut%stallEvery == 0 && nOut <= 40 {
			nStall++
			if !ctl.Park(fmt.Sprintf("sink:%05d", nOut)) {
				return errAborted
			}
		}
		_ = octosql.ZeroValue
		return nil
	}
	var last, lastFile string
	var schedule []string
	fileOf := func(key string) string {
		switch {
		case strings.Contains(key, "c29a.json"):
			return "c29a.json"
		case strings.Contains(key, "c29b.json"):
			return "c29b.json"
		}
		return ""
	}
	ctl.OnRelease = func(key string) {
		last = key[:strings.Index(key, ":")]
		if f := fileOf(key); f != "" {
			lastFile = f
		}
		schedule = append(schedule, key)
	}
	choose := func(en []string) int {
		// While the sink is stalled the join does not drain its input channels. Releasing
		// hand-offs of both files would fill both channels, and Go's select would then pick
		// between them at random, outside the tape's control. So during a stall only the sink
		// or the side that is currently feeding the join may proceed (the other side stays
		// parked: a slow source, which is a legal schedule).
		stalled := false
		for _, k := range en {
			if strings.HasPrefix(k, "sink:") {
				stalled = true
			}
		}
		if stalled {
			var cand []int
			for i, k := range en {
				if strings.HasPrefix(k, "sink:") || (lastFile != "" && fileOf(k) == lastFile) {
					cand = append(cand, i)
				}
			}
			return cand[t.Draw(len(cand))]
		}
		if last != "" && t.Draw(100) < sticky {
			for i := range en {
				if strings.HasPrefix(en[i], last) {
					return i
				}
			}
		}
		return t.Draw(len(en))
	}
	oc := RunGatedPool(r, planned.Node, workers, ctl, produce, func(execution.ProduceContext, execution.MetadataMessage) error { return nil }, choose, 200000)
	r.Sched(strings.Join(schedule, ","))
	if oc.Finished {
		r.AddEvents(nOut)
	}
	r.FaultN("sink_stall", nStall)
	if badRow >= 0 && badRow < nB {
		r.Fault("malformed_row")
	}
	if limit >= 0 {
		r.Probe("early_stop_by_limit")
	}
	if oc.Leaked > 0 {
		r.Probe("goroutines_left_parked_after_run")
	}
	r.Log("run returned err=%v finished=%v deadlock=%v steps=%d", errString(oc.Err), oc.Finished, oc.Deadlock, oc.Steps)
	if oc.Deadlock {
		r.Violate("C29", "deadlock", attrs, "query neither finished nor has any parked hand-off left (%s)", sql)
		return
	}
	if !oc.Finished {
		r.Violate("C29", "hang", attrs, "query did not finish within %d scheduling steps (%s)", oc.Steps, sql)
	}
}

// nestedPoolScenario: A LOOKUP JOIN B with both sides JSON. The lookup runs B's source nested
// inside A's consumer, and both share the one parser pool: while A's consumer waits for B's
// lines to be parsed, the workers keep handing A's parsed batches over. The controller drives
// A's reader and workers far ahead (many batches outstanding) before letting the lookups
// proceed; a LIMIT ends the query after a few dozen lookups. Oracle: the query terminates.
func nestedPoolScenario(r *Run) {
	t := r.Tape
	hdr := t.Block(12)
	// 9 000 lines = 141 batches, just beyond the 128 parsed batches the consumer's channel holds; 20 000 lines =
	// 313 batches, beyond that plus the pool's own queue: the sizes at which "how far may the reader run ahead"
	// starts to matter
	nA := []int{130, 700, 1500, 2300, 9000, 20000}[hdr.Weighted(4, 6, 6, 2, 1, 1)]
	if v := os.Getenv("VERIF_C29_NA"); v != "" {
		fmt.Sscan(v, &nA) // diagnosis only
	}
	nB := 1 + hdr.Draw(3)
	workers := 1 + hdr.Draw(4)
	limit := 20 + hdr.Draw(60)
	aheadPct := []int{95, 80, 50}[hdr.Draw(3)]
	attrs := map[string]string{"scenario": "json_lookup_join"}
	var sa, sb strings.Builder
	for i := 0; i < nA; i++ {
		sa.WriteString(fmt.Sprintf(`{"id":%d,"g":%d}`, i, i%3) + "\n")
	}
	for i := 0; i < nB; i++ {
		sb.WriteString(fmt.Sprintf(`{"id":%d,"g":%d}`, i, i%3) + "\n")
	}
	if err := os.WriteFile("c29la.json", []byte(sa.String()), 0644); err != nil {
		r.Infra("write: %v", err)
		return
	}
	if err := os.WriteFile("c29lb.json", []byte(sb.String()), 0644); err != nil {
		r.Infra("write: %v", err)
		return
	}
	// the LIMIT above a LOOKUP JOIN consolidates (the plan may retract) and reads everything; above a single file
	// or a stream join of two files it is a plain counter that stops the query early, with most of the big
	// file still unread, its reader ahead by as many batches as it may, and the pool busy
	sql := fmt.Sprintf("SELECT a.id, b.id FROM c29la.json a LOOKUP JOIN c29lb.json b ON a.g = b.g LIMIT %d", limit)
	switch hdr.Draw(3) {
	case 1:
		sql = fmt.Sprintf("SELECT a.id, a.g FROM c29la.json a LIMIT %d", limit)
		attrs["scenario"] = "json_limit"
	case 2:
		sql = fmt.Sprintf("SELECT a.id, b.id FROM c29la.json a JOIN c29lb.json b ON a.g = b.g LIMIT %d", limit)
		attrs["scenario"] = "json_join_limit"
	}
	r.Log("sql: %s", sql)
	r.Log("a=%d rows b=%d rows workers=%d ahead=%d%%", nA, nB, workers, aheadPct)
	r.Shape("lookup", nA, nB, workers, limit, aheadPct)
	r.NonTrivial(true)
	ctl := NewCtl()
	disk := NewDisk(r, ctl)
	installSim(ctl, disk, "json.worker.send", "json.reader.submit", "json.reader.done", "json.consumer.loop")
	defer installSim(nil, nil)
	// the lookup re-opens the joined file for every outer row: keep the read buffer (a knob) small
	simConfig.Files.BufferSizeBytes = []int{4096, 65536, 512}[hdr.Draw(3)]
	defer func() { simConfig.Files.BufferSizeBytes = 4096 * 1024 }()
	planned, err := PlanSQL(bubbleCtx(), sql, map[string]*SimTable{}, hdr.Chance(1, 2))
	if err != nil {
		r.Infra("query did not plan: %v", err)
		return
	}
	nOut := 0
	produce := func(ctx execution.ProduceContext, rec execution.Record) error {
		nOut++
		return nil
	}
	var schedule []byte
	choose := func(en []string) int {
		// mostly let the outer file's reader and workers run ahead of the lookups
		var ahead []int
		for i, k := range en {
			if strings.Contains(k, "c29la.json") && !strings.HasPrefix(k, "json.consumer.loop") {
				ahead = append(ahead, i)
			}
		}
		if len(ahead) > 0 && t.Draw(100) < aheadPct {
			schedule = append(schedule, 'a')
			return ahead[t.Draw(len(ahead))]
		}
		schedule = append(schedule, '.')
		return t.Draw(len(en))
	}
	oc := RunGatedPool(r, planned.Node, workers, ctl, produce, func(execution.ProduceContext, execution.MetadataMessage) error { return nil }, choose, 400000)
	r.Sched(string(schedule))
	if oc.Finished {
		r.AddEvents(nOut)
	}
	r.Probe("early_stop_by_limit")
	r.Log("run returned err=%v finished=%v deadlock=%v steps=%d", errString(oc.Err), oc.Finished, oc.Deadlock, oc.Steps)
	if oc.Deadlock {
		r.Violate("C29", "deadlock", attrs, "query neither finished nor has any parked hand-off left (%s, %d workers, %d lines in the big file): the line reader, the parser pool and the consumer wait for each other", sql, workers, nA)
		return
	}
	if !oc.Finished {
		r.Violate("C29", "hang", attrs, "query did not finish within %d scheduling steps (%s)", oc.Steps, sql)
		return
	}
	if oc.Err != nil {
		r.Violate("C29", "hang", attrs, "lookup join failed: %v", oc.Err)
	}
}

// bigInputEarlyStopScenario: a stream/outer join over two scripted tables, one of them with more rows than
// the join's input channel holds (10000), stopped early by LIMIT or by the small input's error. The
// query must return; whatever goroutines it leaves behind is not the property's business.
func bigInputEarlyStopScenario(r *Run) {
	t := r.Tape
	hdr := t.Block(8)
	joinSQL := []string{"JOIN", "LEFT JOIN", "OUTER JOIN"}[hdr.Draw(3)]
	nBig := []int{9000, 10001, 12000, 25000}[hdr.Draw(4)]
	bothBig := hdr.Chance(1, 3)
	stopByError := hdr.Chance(1, 3)
	limit := 1 + hdr.Draw(3)
	attrs := map[string]string{"scenario": "big_input_early_stop"}
	sql := "SELECT l.k, l.id, r.id FROM sim.l l " + joinSQL + " sim.r r ON l.k = r.k"
	if !stopByError {
		sql += fmt.Sprintf(" LIMIT %d", limit)
	}
	r.Log("sql: %s; big=%d bothBig=%v stopByError=%v", sql, nBig, bothBig, stopByError)
	r.Shape("bigstop", joinSQL, nBig, bothBig, stopByError, limit)
	r.NonTrivial(true)
	mkMsgs := func(n int) []Msg {
		m := make([]Msg, n)
		for i := range m {
			m[i] = Msg{Kind: MsgRec, Values: []octosql.Value{intv(i), intv(i)}} // unique keys: one match per row
		}
		return m
	}
	ctl := NewCtl()
	fields := []physical.SchemaField{{Name: "k", Type: octosql.Int}, {Name: "id", Type: octosql.Int}}
	nSmall := 3
	if bothBig {
		nSmall = nBig
	}
	tables := map[string]*SimTable{
		"l": {Fields: fields, TimeField: -1, NoRetractions: true, Source: func() execution.Node {
			return &ScriptSource{Name: "L", Msgs: mkMsgs(nBig), Ctl: ctl, GateEvery: 3000}
		}},
		"r": {Fields: fields, TimeField: -1, NoRetractions: true, Source: func() execution.Node {
			s := &ScriptSource{Name: "R", Msgs: mkMsgs(nSmall), Ctl: ctl, GateEvery: 3000}
			if stopByError {
				s.FinalErr = fmt.Errorf("sim: injected source failure")
			}
			return s
		}},
	}
	// always optimised: unoptimised, an inner join is a cross product under a filter (10^8 pairs here)
	planned, err := PlanSQL(bubbleCtx(), sql, tables, true)
	if err != nil {
		r.Infra("query did not plan: %v", err)
		return
	}
	nOut := 0
	produce := func(ctx execution.ProduceContext, rec execution.Record) error {
		nOut++
		return nil
	}
	var schedule []byte
	ctl.OnRelease = func(key string) { schedule = append(schedule, key[0]) }
	// one input at a time feeds the join (the other stays parked) until it has nothing left to release
	choose := func(en []string) int {
		if len(schedule) > 0 {
			for i, k := range en {
				if k[0] == schedule[len(schedule)-1] && t.Draw(10) != 0 {
					return i
				}
			}
		}
		return t.Draw(len(en))
	}
	oc := RunGated(r, planned.Node, ctl, produce, func(execution.ProduceContext, execution.MetadataMessage) error { return nil }, choose, 100000)
	r.Sched(string(schedule))
	if oc.Finished {
		r.AddEvents(nOut)
	}
	if stopByError {
		r.Fault("source_error")
	} else {
		r.Probe("early_stop_by_limit")
	}
	r.Log("run returned err=%v finished=%v deadlock=%v steps=%d", errString(oc.Err), oc.Finished, oc.Deadlock, oc.Steps)
	if oc.Deadlock || !oc.Finished {
		r.Violate("C29", "deadlock", attrs, "the query did not return after it had been stopped early (%s; %d rows still to deliver)", sql, nBig)
	}
}
