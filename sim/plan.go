package sim

import (
	"context"
	"fmt"
	"sync"

	"github.com/cube2222/octosql/aggregates"
	"github.com/cube2222/octosql/datasources/csv"
	"github.com/cube2222/octosql/datasources/json"
	"github.com/cube2222/octosql/datasources/lines"
	"github.com/cube2222/octosql/execution"
	"github.com/cube2222/octosql/execution/nodes"
	"github.com/cube2222/octosql/functions"
	"github.com/cube2222/octosql/logical"
	"github.com/cube2222/octosql/optimizer"
	"github.com/cube2222/octosql/parser"
	"github.com/cube2222/octosql/parser/sqlparser"
	"github.com/cube2222/octosql/physical"
	"github.com/cube2222/octosql/table_valued_functions"
)

// The planning harness is the glue cmd/root.go has between sqlparser.Parse and
// Materialize, calling only exported APIs, plus one extra database "sim" whose
// tables are simulator-owned sources. functions.FunctionMap() starts ristretto
// ticker goroutines, so it is built once, outside any bubble.

var (
	funcMapOnce sync.Once
	funcMap     map[string]physical.FunctionDetails
)

func functionMap() map[string]physical.FunctionDetails {
	funcMapOnce.Do(func() { funcMap = functions.FunctionMap() })
	return funcMap
}

// SimTable is a table of the simulator database.
type SimTable struct {
	Fields        []physical.SchemaField
	TimeField     int // -1 if none
	NoRetractions bool
	Source        func() execution.Node // called at Materialize
}

type simDB struct{ tables map[string]*SimTable }

func (db *simDB) ListTables(ctx context.Context) ([]string, error) { return nil, nil }

func (db *simDB) GetTable(ctx context.Context, name string, options map[string]string) (physical.DatasourceImplementation, physical.Schema, error) {
	t, ok := db.tables[name]
	if !ok {
		return nil, physical.Schema{}, fmt.Errorf("no sim table %q", name)
	}
	fields := make([]physical.SchemaField, len(t.Fields))
	copy(fields, t.Fields)
	return &simImpl{t}, physical.NewSchema(fields, t.TimeField, physical.WithNoRetractions(t.NoRetractions)), nil
}

type simImpl struct{ t *SimTable }

func (i *simImpl) Materialize(ctx context.Context, env physical.Environment, schema physical.Schema, pushedDownPredicates []physical.Expression) (execution.Node, error) {
	// The optimiser may have removed unused columns: project the source accordingly.
	idx := make([]int, len(schema.Fields))
	for j, f := range schema.Fields {
		idx[j] = -1
		for k, tf := range i.t.Fields {
			if tf.Name == f.Name {
				idx[j] = k
			}
		}
		if idx[j] < 0 {
			return nil, fmt.Errorf("sim table has no column %q", f.Name)
		}
	}
	src := i.t.Source()
	if len(idx) == len(i.t.Fields) {
		same := true
		for j := range idx {
			if idx[j] != j {
				same = false
			}
		}
		if same {
			return src, nil
		}
	}
	exprs := make([]execution.Expression, len(idx))
	for j := range idx {
		exprs[j] = execution.NewVariable(0, idx[j])
	}
	return nodes.NewMap(src, exprs), nil
}

func (i *simImpl) PushDownPredicates(newPredicates, pushedDownPredicates []physical.Expression) (rejected, pushedDown []physical.Expression, changed bool) {
	return newPredicates, []physical.Expression{}, false
}

// simEnv is the environment cmd/root.go builds, with the file datasources it registers and one
// extra database "sim" (no config file, no plugins, no docs).
func simEnv(tables map[string]*SimTable) physical.Environment {
	fileHandlers := map[string]func(ctx context.Context, name string, options map[string]string) (physical.DatasourceImplementation, physical.Schema, error){
		"csv":   csv.Creator(','),
		"json":  json.Creator,
		"lines": lines.Creator,
		"tsv":   csv.Creator('\t'),
	}
	return physical.Environment{
		Aggregates: aggregates.Aggregates,
		Functions:  functionMap(),
		Datasources: &physical.DatasourceRepository{
			Databases: map[string]func() (physical.Database, error){
				"sim": func() (physical.Database, error) { return &simDB{tables}, nil },
			},
			FileHandlers: fileHandlers,
		},
	}
}

// Planned is a query ready to run.
type Planned struct {
	Node          execution.Node
	Schema        physical.Schema // output schema, original column names
	NoRetractions bool
	Physical      physical.Node
}

// PlanSQL plans sql like `octosql -o json` would: parse, typecheck, optimise
// (optional), materialise, then wrap with OrderSensitiveTransform / Limit as
// cmd/root.go does for the eager outputs.
func PlanSQL(ctx context.Context, sql string, tables map[string]*SimTable, optimize bool) (_ *Planned, outErr error) {
	defer func() {
		if p := recover(); p != nil {
			outErr = fmt.Errorf("plan panic: %v", p)
		}
	}()
	env := simEnv(tables)
	statement, err := sqlparser.Parse(sql)
	if err != nil {
		return nil, fmt.Errorf("couldn't parse query: %w", err)
	}
	selectStmt, ok := statement.(sqlparser.SelectStatement)
	if !ok {
		return nil, fmt.Errorf("only SELECT statements are supported")
	}
	logicalPlan, outputOptions, err := parser.ParseNode(selectStmt)
	if err != nil {
		return nil, fmt.Errorf("couldn't parse query: %w", err)
	}
	tvfs := map[string]logical.TableValuedFunctionDescription{
		"max_diff_watermark": table_valued_functions.MaxDiffWatermark,
		"tumble":             table_valued_functions.Tumble,
		"range":              table_valued_functions.Range,
		"poll":               table_valued_functions.Poll,
	}
	uniqueNameGenerator := map[string]int{}
	physicalPlan, mapping := logicalPlan.Typecheck(ctx, env, logical.Environment{
		CommonTableExpressions: map[string]logical.CommonTableExpression{},
		TableValuedFunctions:   tvfs,
		UniqueNameGenerator:    uniqueNameGenerator,
	})
	reverseMapping := logical.ReverseMapping(mapping)
	exprEnv := func() logical.Environment {
		return logical.Environment{
			CommonTableExpressions: map[string]logical.CommonTableExpression{},
			TableValuedFunctions:   tvfs,
			UniqueVariableNames:    &logical.VariableMapping{Mapping: mapping},
			UniqueNameGenerator:    uniqueNameGenerator,
		}
	}
	physOrderBy := make([]physical.Expression, len(outputOptions.OrderByExpressions))
	for i := range outputOptions.OrderByExpressions {
		physOrderBy[i] = outputOptions.OrderByExpressions[i].Typecheck(ctx, env.WithRecordSchema(physicalPlan.Schema), exprEnv())
	}
	var physLimit *physical.Expression
	if outputOptions.Limit != nil {
		e := (*outputOptions.Limit).Typecheck(ctx, env.WithRecordSchema(physicalPlan.Schema), exprEnv())
		physLimit = &e
	}
	if optimize {
		physicalPlan = optimizer.Optimize(physicalPlan)
	}
	execPlan, err := physicalPlan.Materialize(ctx, env)
	if err != nil {
		return nil, fmt.Errorf("couldn't materialize physical plan: %w", err)
	}
	orderBy := make([]execution.Expression, len(physOrderBy))
	for i := range physOrderBy {
		orderBy[i], err = physOrderBy[i].Materialize(ctx, env.WithRecordSchema(physicalPlan.Schema))
		if err != nil {
			return nil, fmt.Errorf("couldn't materialize order by: %w", err)
		}
	}
	var limit *execution.Expression
	if physLimit != nil {
		e, err := physLimit.Materialize(ctx, env.WithRecordSchema(physicalPlan.Schema))
		if err != nil {
			return nil, fmt.Errorf("couldn't materialize limit: %w", err)
		}
		limit = &e
	}
	if len(orderBy) > 0 || (limit != nil && !physicalPlan.Schema.NoRetractions) {
		execPlan = nodes.NewOrderSensitiveTransform(execPlan, orderBy, logical.DirectionsToMultipliers(outputOptions.OrderByDirections), limit, physicalPlan.Schema.NoRetractions)
	} else if limit != nil {
		execPlan = nodes.NewLimit(execPlan, *limit)
	}
	outFields := make([]physical.SchemaField, len(physicalPlan.Schema.Fields))
	copy(outFields, physicalPlan.Schema.Fields)
	for i := range outFields {
		outFields[i].Name = reverseMapping[outFields[i].Name]
	}
	return &Planned{
		Node:          execPlan,
		Schema:        physical.Schema{Fields: outFields, TimeField: physicalPlan.Schema.TimeField},
		NoRetractions: physicalPlan.Schema.NoRetractions,
		Physical:      physicalPlan,
	}, nil
}
