package sim

import (
	"fmt"
	"math"
	"sort"
	"strings"
	"time"

	"github.com/cube2222/octosql/aggregates"
	"github.com/cube2222/octosql/execution/nodes"
	"github.com/cube2222/octosql/octosql"
)

func init() { register("c14", checkC14) }

type aggCase struct {
	name     string // aggregate name as registered (e.g. sum_distinct)
	typ      string // int | float | duration | time | any
	proto    func() nodes.Aggregate
	base     string // count | sum | avg | min | max | array_agg
	distinct bool
}

var aggCasesCache []aggCase

// aggCases enumerates every descriptor of every registered aggregate.
func aggCases() []aggCase {
	if aggCasesCache != nil {
		return aggCasesCache
	}
	names := make([]string, 0, len(aggregates.Aggregates))
	for n := range aggregates.Aggregates {
		names = append(names, n)
	}
	sort.Strings(names)
	for _, n := range names {
		base := strings.TrimSuffix(n, "_distinct")
		for _, d := range aggregates.Aggregates[n].Descriptors {
			c := aggCase{name: n, proto: d.Prototype, base: base, distinct: strings.HasSuffix(n, "_distinct")}
			switch {
			case d.TypeFn != nil:
				c.typ = "any"
			case d.ArgumentType.TypeID == octosql.TypeIDInt:
				c.typ = "int"
			case d.ArgumentType.TypeID == octosql.TypeIDFloat:
				c.typ = "float"
			case d.ArgumentType.TypeID == octosql.TypeIDDuration:
				c.typ = "duration"
			case d.ArgumentType.TypeID == octosql.TypeIDTime:
				c.typ = "time"
			default:
				c.typ = "any"
			}
			aggCasesCache = append(aggCasesCache, c)
		}
	}
	return aggCasesCache
}

var (
	intDomain   = []int64{0, 1, -1, 2, 3, 7, math.MaxInt64, math.MinInt64, math.MaxInt64 - 1, -5}
	floatDomain = []float64{0, 1, -1, 0.5, 2.5, 1e150, -1e150, 1e-300, 3, -0.25}
	durDomain   = []time.Duration{0, time.Second, -time.Second, time.Nanosecond, time.Hour, math.MaxInt64, math.MinInt64, 90 * time.Minute}
)

func drawAggValue(t *Tape, c aggCase, dom int) octosql.Value {
	typ := c.typ
	if typ == "any" {
		typ = []string{"int", "string", "float"}[dom%3]
	}
	switch typ {
	case "int":
		return octosql.NewInt(intDomain[t.Draw(min(len(intDomain), 3+dom))])
	case "float":
		n := min(len(floatDomain), 3+dom)
		v := floatDomain[t.Draw(n)]
		if c.base == "min" || c.base == "max" {
			// infinities are fine for an order statistic
			if x := t.Draw(12); x == 0 {
				v = math.Inf(1)
			} else if x == 1 {
				v = math.Inf(-1)
			}
		}
		if !c.distinct && t.Draw(10) == 0 {
			v = math.Copysign(0, -1) // -0.0: only where hashing is not involved
		}
		return octosql.NewFloat(v)
	case "duration":
		return octosql.NewDuration(durDomain[t.Draw(min(len(durDomain), 3+dom))])
	case "time":
		return octosql.NewTime(T(1 + t.Draw(3+dom)))
	case "string":
		return octosql.NewString([]string{"a", "b", "B", "", "ab", "é"}[t.Draw(min(6, 2+dom))])
	}
	panic("bad type")
}

// natural order of the generated values, written without octosql.Compare
func aggLess(a, b octosql.Value) bool {
	switch a.TypeID {
	case octosql.TypeIDInt:
		return a.Int < b.Int
	case octosql.TypeIDFloat:
		return a.Float < b.Float
	case octosql.TypeIDDuration:
		return a.Duration < b.Duration
	case octosql.TypeIDTime:
		return a.Time.Before(b.Time)
	case octosql.TypeIDString:
		return a.Str < b.Str
	}
	panic("bad type")
}

func aggSame(a, b octosql.Value) bool { return !aggLess(a, b) && !aggLess(b, a) }

// checkC14: every aggregate prototype, fed a prefix-valid add/retract history;
// after every step with a non-empty multiset, Trigger() must equal the
// aggregate recomputed from scratch.
func checkC14(r *Run) {
	t := r.Tape
	cases := aggCases()
	hdr := t.Block(4)
	c := cases[hdr.Draw(len(cases))]
	maxSteps := 10
	if r.Thorough() {
		maxSteps = []int{8, 16, 40}[hdr.Draw(3)]
	}
	dom := hdr.Draw(8)
	attrs := map[string]string{"aggregate": c.name, "type": c.typ}
	r.Log("aggregate=%s type=%s", c.name, c.typ)
	r.Shape(c.name, c.typ)

	// Two kinds of histories. Prefix-valid: every retraction names a value that is present (what a
	// group-by receives from a valid changelog). Any interleaving (1/4 of the runs): the same additions
	// and retractions in an arbitrary order, so a retraction may arrive before its addition; the
	// statement quantifies over every interleaving whose net multiset is non-empty, and the oracle is
	// evaluated whenever the net multiset is a multiset (no negative multiplicity) and non-empty.
	anyOrder := hdr.Chance(1, 4)
	type op struct {
		retract bool
		v       octosql.Value
	}
	var ops []op
	{
		var present []octosql.Value
		body := t.Block(8*maxSteps + 8)
		for i := 0; i < maxSteps; i++ {
			sb := body.Block(8)
			if sb.Draw(maxSteps+1) == 0 {
				break
			}
			if len(present) > 0 && sb.Draw(3) == 0 {
				j := sb.Draw(len(present))
				ops = append(ops, op{true, present[j]})
				present = append(present[:j:j], present[j+1:]...)
			} else {
				v := drawAggValue(sb, c, dom)
				present = append(present, v)
				ops = append(ops, op{false, v})
			}
		}
		if anyOrder {
			sh := t.Block(maxSteps)
			for i := len(ops) - 1; i > 0; i-- {
				j := sh.Draw(i + 1)
				ops[i], ops[j] = ops[j], ops[i]
			}
			attrs["history"] = "any_order"
		}
	}

	agg := c.proto()
	counts := NewMS() // signed: a retraction ahead of its addition makes a multiplicity negative for a while
	var hist strings.Builder
	sumAbs := 0.0
	steps := 0
	type reported struct {
		v    octosql.Value
		enc  string
		hist string
	}
	var earlier []reported
	for _, o := range ops {
		steps++
		retract, v := o.retract, o.v
		if retract {
			counts.Add([]octosql.Value{v}, -1)
			hist.WriteString("-" + ValString(v) + " ")
		} else {
			counts.Add([]octosql.Value{v}, 1)
			hist.WriteString("+" + ValString(v) + " ")
		}
		if v.TypeID == octosql.TypeIDFloat {
			sumAbs += math.Abs(v.Float)
		}
		_, negative := counts.HasNegative()
		var present []octosql.Value
		if !negative {
			for _, row := range counts.Rows() {
				present = append(present, row[0])
			}
		}
		if negative {
			r.Probe("net_multiset_negative_for_a_while")
		}
		var got octosql.Value
		var perr any
		func() {
			defer func() { perr = recover() }()
			agg.Add(retract, v)
			if len(present) > 0 {
				got = agg.Trigger()
			}
		}()
		r.Log("%s -> %s", strings.TrimSpace(hist.String()[max(0, hist.Len()-24):]), ValString(got))
		if perr != nil {
			r.Violate("C14", "panic", attrs, "aggregate panicked after history %s: %v", hist.String(), perr)
			break
		}
		// a value once reported stays what it was: the group-by keeps it to retract it later
		for _, e := range earlier {
			if RowKey([]octosql.Value{e.v}) != e.enc {
				r.Violate("C14", "reported_value_changed", attrs, "the value reported after history %s was %s; after %s the same value reads %s",
					e.hist, e.enc, strings.TrimSpace(hist.String()), RowKey([]octosql.Value{e.v}))
				break
			}
		}
		if r.Failed() {
			break
		}
		if len(present) == 0 {
			continue
		}
		earlier = append(earlier, reported{got, RowKey([]octosql.Value{got}), strings.TrimSpace(hist.String())})
		if len(earlier) > 4 {
			earlier = earlier[1:]
		}
		want, tol := refAggregate(c, present, steps, sumAbs)
		if !aggResultEqual(got, want, tol) {
			r.Violate("C14", "value_mismatch", attrs, "after history %s the aggregate reports %s, from scratch over the net multiset it is %s",
				strings.TrimSpace(hist.String()), ValString(got), ValString(want))
			break
		}
	}
	r.Sched(hist.String())
	r.NonTrivial(steps >= 2)
	r.AddEvents(steps)
}

func refAggregate(c aggCase, present []octosql.Value, n int, sumAbs float64) (octosql.Value, float64) {
	m := append([]octosql.Value(nil), present...)
	sort.SliceStable(m, func(i, j int) bool { return aggLess(m[i], m[j]) })
	if c.distinct {
		var d []octosql.Value
		for i := range m {
			if i == 0 || !aggSame(m[i-1], m[i]) {
				d = append(d, m[i])
			}
		}
		m = d
	}
	tol := 0.0
	switch c.base {
	case "count":
		return octosql.NewInt(int64(len(m))), 0
	case "min":
		return m[0], 0
	case "max":
		return m[len(m)-1], 0
	case "array_agg":
		return octosql.NewList(m), 0
	case "sum", "avg":
		switch c.typ {
		case "int":
			var s int64
			for _, v := range m {
				s += v.Int
			}
			if c.base == "avg" {
				return octosql.NewInt(s / int64(len(m))), 0
			}
			return octosql.NewInt(s), 0
		case "duration":
			var s time.Duration
			for _, v := range m {
				s += v.Duration
			}
			if c.base == "avg" {
				return octosql.NewDuration(s / time.Duration(len(m))), 0
			}
			return octosql.NewDuration(s), 0
		case "float":
			s := 0.0
			for _, v := range m {
				s += v.Float
			}
			tol = 2.3e-16 * float64(n+1) * sumAbs
			if c.base == "avg" {
				return octosql.NewFloat(s / float64(len(m))), tol / float64(len(m))
			}
			return octosql.NewFloat(s), tol
		}
	}
	panic(fmt.Sprintf("no reference for %s/%s", c.name, c.typ))
}

func aggResultEqual(got, want octosql.Value, tol float64) bool {
	if got.TypeID != want.TypeID {
		return false
	}
	switch want.TypeID {
	case octosql.TypeIDFloat:
		if got.Float == want.Float {
			return true
		}
		return math.Abs(got.Float-want.Float) <= tol
	case octosql.TypeIDList:
		if len(got.List) != len(want.List) {
			return false
		}
		for i := range want.List {
			if got.List[i].TypeID != want.List[i].TypeID || !aggSame(got.List[i], want.List[i]) {
				return false
			}
		}
		return true
	default:
		return aggSame(got, want)
	}
}
