package sim

import (
	"sort"
	"sync/atomic"
)

// Ctl is the simulator's controller: goroutines of the system under test park
// on named gates; after quiescence (synctest.Wait) the controller releases
// exactly one of them, chosen from the tape. Gate names are content-derived
// ("L:003", "json.worker.send:f.json:00128"), and the option list is sorted, so
// it does not depend on which OS thread parked first.
//
// Race-detector hygiene (C29): the controller must not order goroutines of the
// system under test with respect to each other, or it would hide the races it
// is looking for. A parking goroutine hands its gate to the controller over a
// large buffered channel (one slot per park: an edge parker -> controller only)
// and then waits for the release inside runtime.RaceDisable/RaceEnable, so the
// release creates no controller -> parker edge. All bookkeeping is private to
// the controller's goroutine.
type Ctl struct {
	reg     chan *gate
	parked  map[string]*gate // controller goroutine only
	aborted atomic.Bool
	Steps   int
	// OnRelease, if set, is called (on the controller's goroutine) for every released gate.
	OnRelease func(key string)
}

type gate struct {
	key string
	ch  chan struct{}
}

func NewCtl() *Ctl {
	// In race builds the registration channel must not wrap around within a
	// run: the detector models one sync object per buffer slot, and a reused
	// slot would hand the controller's clock to the next parker.
	n := 256
	if raceBuild {
		n = 1 << 16
	}
	return &Ctl{reg: make(chan *gate, n), parked: map[string]*gate{}}
}

// Park blocks the caller until the controller releases key. It returns false
// if the run has been aborted (the caller should unwind quickly).
func (c *Ctl) Park(key string) bool {
	raceOff()
	ab := c.aborted.Load()
	raceOn()
	if ab {
		return false
	}
	g := &gate{key: key, ch: make(chan struct{})}
	c.reg <- g
	raceOff()
	<-g.ch
	ab = c.aborted.Load()
	raceOn()
	return !ab
}

func (c *Ctl) drain() {
	for {
		select {
		case g := <-c.reg:
			if _, dup := c.parked[g.key]; dup {
				panic("sim: duplicate gate key " + g.key)
			}
			c.parked[g.key] = g
		default:
			return
		}
	}
}

// Enabled lists the parked gates, sorted. Controller goroutine only, after quiescence.
func (c *Ctl) Enabled() []string {
	c.drain()
	out := make([]string, 0, len(c.parked))
	for k := range c.parked {
		out = append(out, k)
	}
	sort.Strings(out)
	return out
}

func (c *Ctl) Release(key string) {
	g, ok := c.parked[key]
	if !ok {
		panic("sim: release of unparked gate " + key)
	}
	delete(c.parked, key)
	c.Steps++
	if c.OnRelease != nil {
		c.OnRelease(key)
	}
	raceOff()
	close(g.ch)
	raceOn()
}

// Abort releases everything that is parked or will park from now on.
func (c *Ctl) Abort() {
	raceOff()
	c.aborted.Store(true)
	raceOn()
	c.drain()
	for k, g := range c.parked {
		raceOff()
		close(g.ch)
		raceOn()
		delete(c.parked, k)
	}
}

// AbortLate releases gates that were registered after Abort (a goroutine that
// had passed the aborted check before Abort ran).
func (c *Ctl) AbortLate() {
	c.drain()
	for k, g := range c.parked {
		raceOff()
		close(g.ch)
		raceOn()
		delete(c.parked, k)
	}
}
