package sim

import (
	"sort"
	"sync"
)

// Ctl is the simulator's controller: goroutines of the system under test park
// on named gates; after quiescence (synctest.Wait) the controller releases
// exactly one of them, chosen from the tape. Gate names are content-derived
// ("L:3", "json.worker.send:128"), and the option list is sorted, so it does
// not depend on which OS thread parked first.
type Ctl struct {
	mu      sync.Mutex
	parked  map[string]chan struct{}
	aborted bool
	Steps   int
	// OnRelease, if set, is called (on the controller's goroutine) for every released gate.
	OnRelease func(key string)
}

func NewCtl() *Ctl {
	return &Ctl{parked: map[string]chan struct{}{}}
}

// Park blocks the caller until the controller releases key. It returns false
// if the run has been aborted (the caller should unwind quickly).
func (c *Ctl) Park(key string) bool {
	raceOff()
	c.mu.Lock()
	if c.aborted {
		c.mu.Unlock()
		raceOn()
		return false
	}
	if _, dup := c.parked[key]; dup {
		c.mu.Unlock()
		raceOn()
		panic("sim: duplicate gate key " + key)
	}
	ch := make(chan struct{})
	c.parked[key] = ch
	c.mu.Unlock()
	<-ch
	c.mu.Lock()
	ab := c.aborted
	c.mu.Unlock()
	raceOn()
	return !ab
}

// Enabled lists the parked gates, sorted.
func (c *Ctl) Enabled() []string {
	raceOff()
	c.mu.Lock()
	out := make([]string, 0, len(c.parked))
	for k := range c.parked {
		out = append(out, k)
	}
	c.mu.Unlock()
	raceOn()
	sort.Strings(out)
	return out
}

func (c *Ctl) Release(key string) {
	raceOff()
	c.mu.Lock()
	ch, ok := c.parked[key]
	if !ok {
		c.mu.Unlock()
		raceOn()
		panic("sim: release of unparked gate " + key)
	}
	delete(c.parked, key)
	c.Steps++
	c.mu.Unlock()
	raceOn()
	if c.OnRelease != nil {
		c.OnRelease(key)
	}
	raceOff()
	close(ch)
	raceOn()
}

// Abort releases everything that is parked or will park from now on.
func (c *Ctl) Abort() {
	raceOff()
	c.mu.Lock()
	c.aborted = true
	for k, ch := range c.parked {
		close(ch)
		delete(c.parked, k)
	}
	c.mu.Unlock()
	raceOn()
}
