package sim

import (
	"errors"
	"fmt"
	"strings"
	"testing/synctest"
	"time"

	"github.com/cube2222/octosql/execution"
	"github.com/cube2222/octosql/octosql"
	"github.com/cube2222/octosql/physical"
)

func init() {
	register("c21", func(r *Run) {
		switch r.Tape.Weighted(4, 1, 4) {
		case 0:
			tumbleScenario(r)
		case 1:
			rangeScenario(r)
		case 2:
			pollScenario(r, "C21")
		}
	})
}

func tumbleScenario(r *Run) {
	t := r.Tape
	hdr := t.Block(12)
	maxSteps := 8
	if r.Thorough() {
		maxSteps = []int{6, 12, 24}[hdr.Draw(3)]
	}
	// window lengths dividing a day, so that "aligned to a multiple of the length" does not depend on the time origin
	lengthMs := []int64{2000, 1000, 3000, 4000, 5000, 10000, 60000, 500, 1500}[hdr.Draw(9)]
	offsetMs := int64(0)
	withOffset := hdr.Chance(1, 2)
	if withOffset {
		offsetMs = []int64{0, 500, 1000, 250, 1750, 7000, -500, -10000, -250}[hdr.Draw(9)]
	}
	// the source has two time columns: t is its declared (watermarked) time field, u = t + 7.3s another one.
	// time_field: absent (implicit: t), DESCRIPTOR(t) or DESCRIPTOR(u)
	timeField := []string{"", "t", "u"}[hdr.Draw(3)]
	// source of tumble: the table itself, or a projection of it (a CTE with permuted columns)
	viaProjection := hdr.Chance(1, 2)
	perm := [][]string{{"id", "t", "u", "v"}, {"t", "id", "v", "u"}, {"v", "u", "id", "t"}, {"u", "v", "t", "id"}}[hdr.Draw(4)]
	// outer select list: everything, or some columns that do not name the time columns
	subset := hdr.Chance(1, 2)
	attrs := map[string]string{"tvf": "tumble"}
	const uShift = 7300 * time.Millisecond
	row := func(t *Tape, i, sec int) []octosql.Value {
		ms := int64(sec)*1000 + int64(t.Draw(4))*250
		if sec == 0 {
			ms = int64(1+t.Draw(5)) * 750
		}
		return []octosql.Value{intv(i), octosql.NewTime(msTime(ms)), octosql.NewTime(msTime(ms).Add(uShift)), intv(t.Draw(3))}
	}
	script := GenChangelog(t.Block(stepBlock*maxSteps+10), ChangelogCfg{MaxSteps: maxSteps, Watermarked: true, Retractions: true, Dups: true,
		Row: row, FinalWM: true, RetractSameTime: true})
	args := fmt.Sprintf("window_length=>INTERVAL %d MILLISECONDS", lengthMs)
	if timeField != "" {
		args += ", time_field=>DESCRIPTOR(" + timeField + ")"
	}
	if withOffset {
		args += fmt.Sprintf(", offset=>INTERVAL %d MILLISECONDS", offsetMs)
	}
	srcCols := []string{"id", "t", "u", "v"}
	sql := ""
	if viaProjection {
		srcCols = perm
		sql = "WITH p AS (SELECT s." + strings.Join(perm, ", s.") + " FROM sim.s s) "
		sql += "SELECT %s FROM tumble(source=>TABLE(p), " + args + ") x"
	} else {
		sql = "SELECT %s FROM tumble(source=>TABLE(sim.s), " + args + ") x"
	}
	outCols := append(append([]string{}, srcCols...), "window_start", "window_end")
	selectList := "*"
	if subset {
		outCols = []string{"window_end", "id", "window_start", "v"}
		selectList = "x." + strings.Join(outCols, ", x.")
	}
	sql = fmt.Sprintf(sql, selectList)
	optimize := hdr.Chance(2, 3)
	r.Log("sql: %s (optimize=%v)", sql, optimize)
	r.Log("in: %s", ScriptString(script))
	r.Shape("tumble", lengthMs, offsetMs, timeField, viaProjection, fmt.Sprint(perm), subset, optimize, scriptShape(script))
	r.Sched(ScriptString(script))
	r.NonTrivial(len(script) >= 2)
	r.AddSimTime(int64(len(script)) * int64(time.Second))

	tables := map[string]*SimTable{"s": {
		Fields:    []physical.SchemaField{{Name: "id", Type: octosql.Int}, {Name: "t", Type: octosql.Time}, {Name: "u", Type: octosql.Time}, {Name: "v", Type: octosql.Int}},
		TimeField: 1, NoRetractions: false,
		Source: func() execution.Node { return &ScriptSource{Name: "S", Msgs: script} },
	}}
	planned, err := PlanSQL(bubbleCtx(), sql, tables, optimize)
	if err != nil {
		r.Infra("query did not plan: %v", err)
		return
	}
	colOf := map[string]int{"id": 0, "t": 1, "u": 2, "v": 3}
	pos := 0
	nOut := 0
	next := func() (Msg, bool) {
		if pos >= len(script) {
			return Msg{}, false
		}
		m := script[pos]
		pos++
		return m, true
	}
	L := time.Duration(lengthMs) * time.Millisecond
	off := time.Duration(offsetMs) * time.Millisecond
	func() {
		defer func() {
			if p := recover(); p != nil {
				err = fmt.Errorf("panic: %v", p)
			}
		}()
		err = planned.Node.Run(execution.ExecutionContext{Context: bubbleCtx()},
			func(ctx execution.ProduceContext, rec execution.Record) error {
				nOut++
				r.SinkLog("  out %s", Msg{Kind: MsgRec, Values: rec.Values, Retr: rec.Retraction, ET: rec.EventTime})
				m, ok := next()
				if !ok || m.Kind != MsgRec {
					r.Violate("C21", "tumble_sequence", attrs, "unexpected record %s (input message %d is %v)", RowString(rec.Values), pos, m)
					return nil
				}
				if len(rec.Values) != len(outCols) || rec.Retraction != m.Retr || !rec.EventTime.Equal(m.ET) {
					r.Violate("C21", "tumble_fields", attrs, "record %s does not carry the input record %s (sign, event time, %d columns %v)", Msg{Kind: MsgRec, Values: rec.Values, Retr: rec.Retraction, ET: rec.EventTime}, m, len(outCols), outCols)
					return nil
				}
				var ws, we octosql.Value
				for i, c := range outCols {
					switch c {
					case "window_start":
						ws = rec.Values[i]
					case "window_end":
						we = rec.Values[i]
					default:
						if RowKey([]octosql.Value{rec.Values[i]}) != RowKey([]octosql.Value{m.Values[colOf[c]]}) {
							r.Violate("C21", "tumble_fields", attrs, "column %s of %s is not the input's (%s)", c, RowString(rec.Values), m)
							return nil
						}
					}
				}
				ts := m.Values[1].Time
				if timeField == "u" {
					ts = m.Values[2].Time
				}
				if ws.TypeID != octosql.TypeIDTime || we.TypeID != octosql.TypeIDTime {
					r.Violate("C21", "tumble_window", attrs, "window columns are not times: %s", RowString(rec.Values))
					return nil
				}
				okWindow := !ws.Time.After(ts) && ts.Before(we.Time) && we.Time.Sub(ws.Time) == L &&
					(ws.Time.Add(-off).UnixNano()%int64(L)+int64(L))%int64(L) == 0
				if !okWindow {
					r.Violate("C21", "tumble_window", attrs, "time %s (field %q) got window [%s, %s) for length %v offset %v", msString(ts), timeField, msString(ws.Time), msString(we.Time), L, off)
				}
				return nil
			},
			func(ctx execution.ProduceContext, msg execution.MetadataMessage) error {
				nOut++
				r.SinkLog("  out wm(%s)", Sec(msg.Watermark))
				m, ok := next()
				if !ok || m.Kind != MsgWM || !m.ET.Equal(msg.Watermark) {
					r.Violate("C21", "tumble_sequence", attrs, "watermark %s out of place (input message %d is %v)", Sec(msg.Watermark), pos, m)
				}
				return nil
			})
	}()
	r.AddEvents(nOut)
	r.Log("run returned err=%v", err)
	if err != nil {
		r.Violate("C21", "run_error", attrs, "tumble failed: %v", err)
		return
	}
	if pos != len(script) {
		r.Violate("C21", "tumble_sequence", attrs, "only %d of %d input messages came out", pos, len(script))
	}
}

// rangeScenario has no schedule, clock or fault dimension; it is checked because
// range is the source of other runs, and reported as a by-product.
func rangeScenario(r *Run) {
	t := r.Tape
	hdr := t.Block(12)
	start := int64(hdr.Draw(9)) - 4
	end := start + int64(hdr.Draw(12)) - 2
	limit := -1
	if hdr.Chance(1, 3) {
		limit = 1 + hdr.Draw(5)
	}
	if hdr.Chance(1, 3) {
		rangeRerunScenario(r, hdr)
		return
	}
	sql := fmt.Sprintf("SELECT * FROM range(start=>%d, end=>%d) r", start, end)
	if start < 0 || end < 0 {
		sql = fmt.Sprintf("SELECT * FROM range(start=>0 - %d, end=>0 - %d + %d) r", -start, -start, end-start)
	}
	if limit >= 0 {
		sql += fmt.Sprintf(" LIMIT %d", limit)
	}
	attrs := map[string]string{"tvf": "range"}
	r.Log("sql: %s", sql)
	r.Shape("range", limit >= 0)
	r.Sched(start, end, limit)
	r.NonTrivial(end-start >= 2)
	r.Probe("range_byproduct_runs")
	planned, err := PlanSQL(bubbleCtx(), sql, map[string]*SimTable{}, hdr.Chance(1, 2))
	if err != nil {
		r.Infra("query did not plan: %v", err)
		return
	}
	var got []int64
	err = planned.Node.Run(execution.ExecutionContext{Context: bubbleCtx()},
		func(ctx execution.ProduceContext, rec execution.Record) error {
			got = append(got, rec.Values[0].Int)
			return nil
		},
		func(ctx execution.ProduceContext, msg execution.MetadataMessage) error { return nil })
	r.Log("out: %v err=%v", got, err)
	r.AddEvents(len(got))
	if err != nil {
		r.Violate("C21", "run_error", attrs, "range failed: %v", err)
		return
	}
	var want []int64
	for i := start; i < end; i++ {
		if limit >= 0 && len(want) >= limit {
			break
		}
		want = append(want, i)
	}
	if fmt.Sprint(got) != fmt.Sprint(want) {
		r.Violate("C21", "range_sequence", attrs, "range(%d,%d) limit %d emitted %v, specified %v", start, end, limit, got, want)
	}
}

// rangeRerunScenario: the same range node is run several times with bounds that depend on the outer
// record (the joined side of a LOOKUP JOIN is run once per outer record): every run must emit its own
// interval. `a LOOKUP JOIN range(start=>0, end=>a.i) b` = for every i of a, in order: (i,0) .. (i,i-1).
func rangeRerunScenario(r *Run, hdr *Tape) {
	start := int64(hdr.Draw(4))
	end := start + int64(hdr.Draw(5))
	sql := fmt.Sprintf("SELECT a.i, b.i FROM range(start=>%d, end=>%d) a LOOKUP JOIN range(start=>0, end=>a.i) b", start, end)
	attrs := map[string]string{"tvf": "range", "rerun": "lookup_join"}
	r.Log("sql: %s", sql)
	r.Shape("range_rerun")
	r.Sched(start, end)
	r.NonTrivial(end-start >= 2)
	r.Probe("range_node_run_per_outer_record")
	planned, err := PlanSQL(bubbleCtx(), sql, map[string]*SimTable{}, hdr.Chance(1, 2))
	if err != nil {
		r.Infra("query did not plan: %v", err)
		return
	}
	var got [][2]int64
	err = planned.Node.Run(execution.ExecutionContext{Context: bubbleCtx()},
		func(ctx execution.ProduceContext, rec execution.Record) error {
			got = append(got, [2]int64{rec.Values[0].Int, rec.Values[1].Int})
			return nil
		},
		func(ctx execution.ProduceContext, msg execution.MetadataMessage) error { return nil })
	r.Log("out: %v err=%v", got, err)
	r.AddEvents(len(got))
	if err != nil {
		r.Violate("C21", "run_error", attrs, "range failed: %v", err)
		return
	}
	var want [][2]int64
	for i := start; i < end; i++ {
		for j := int64(0); j < i; j++ {
			want = append(want, [2]int64{i, j})
		}
	}
	if fmt.Sprint(got) != fmt.Sprint(want) {
		r.Violate("C21", "range_sequence", attrs, "%s emitted %v, specified %v", sql, got, want)
	}
}

// snapshotSource serves the r-th generated snapshot on its r-th Run, optionally
// stalling (simulated latency on the bubble's fake clock) before answering.
type snapshotSource struct {
	snaps [][][]octosql.Value
	stall []time.Duration
	round int
	OnRun func(round int)
}

func (s *snapshotSource) Run(ctx execution.ExecutionContext, produce execution.ProduceFn, metaSend execution.MetaSendFn) error {
	i := s.round
	s.round++
	if s.OnRun != nil {
		s.OnRun(i)
	}
	if i < len(s.stall) && s.stall[i] > 0 {
		time.Sleep(s.stall[i])
	}
	if i >= len(s.snaps) {
		return nil
	}
	for _, row := range s.snaps[i] {
		vals := append([]octosql.Value(nil), row...)
		if err := produce(execution.ProduceFromExecutionContext(ctx), execution.NewRecord(vals, false, time.Time{})); err != nil {
			return err
		}
	}
	return nil
}

var errStopPoll = errors.New("sim: stop poll")

// pollScenario: poll(source=>TABLE(sim.snap)) inside the bubble: the fake clock
// is the only clock. Per round r: retractions of exactly snapshot r-1 (time
// column and event time = now_{r-1}), then snapshot r with time = now_r, then
// watermark now_r; now_r - now_{r-1} = 1s + stall_{r-1}.
func pollScenario(r *Run, mode string) {
	t := r.Tape
	hdr := t.Block(4)
	rounds := 2 + hdr.Draw(3)
	if r.Thorough() {
		rounds = 2 + hdr.Draw(6)
	}
	var snaps [][][]octosql.Value
	var stall []time.Duration
	body := t.Block(rounds * 12)
	for i := 0; i < rounds; i++ {
		sb := body.Block(12)
		n := sb.Draw(4)
		var rows [][]octosql.Value
		for j := 0; j < n; j++ {
			rows = append(rows, []octosql.Value{intv(1 + sb.Draw(3)), intv(sb.Draw(2))})
		}
		snaps = append(snaps, rows)
		d := time.Duration(0)
		if sb.Chance(1, 3) {
			d = time.Duration(1+sb.Draw(8)) * 250 * time.Millisecond
			r.Fault("stalled_source")
		}
		stall = append(stall, d)
	}
	attrs := map[string]string{"tvf": "poll"}
	sql := "SELECT * FROM poll(source=>TABLE(sim.snap)) p"
	r.Log("sql: %s rounds=%d", sql, rounds)
	for i := range snaps {
		r.Log("snapshot %d: %s stall=%v", i, tableString(snaps[i]), stall[i])
	}
	r.Shape("poll", rounds, fmt.Sprint(stall))
	var sb strings.Builder
	for i := range snaps {
		sb.WriteString(tableString(snaps[i]) + "|")
	}
	r.Sched(sb.String())
	r.NonTrivial(rounds >= 2)

	src := &snapshotSource{snaps: snaps, stall: stall}
	tables := map[string]*SimTable{"snap": {
		Fields:    []physical.SchemaField{{Name: "a", Type: octosql.Int}, {Name: "b", Type: octosql.Int}},
		TimeField: -1, NoRetractions: true,
		Source: func() execution.Node { return src },
	}}
	planned, err := PlanSQL(bubbleCtx(), sql, tables, hdr.Chance(1, 2))
	if err != nil {
		r.Infra("query did not plan: %v", err)
		return
	}
	type ev struct {
		kind string // rec | wm
		rec  execution.Record
		wm   time.Time
		at   time.Time // fake-clock time of the emission
	}
	var events []ev
	var runErr error
	var start time.Time
	var lastWM time.Time
	bubble(r, func() {
		start = time.Now()
		done := make(chan struct{})
		wms := 0
		go func() {
			defer close(done)
			defer func() {
				if p := recover(); p != nil {
					runErr = fmt.Errorf("panic: %v", p)
				}
			}()
			runErr = planned.Node.Run(execution.ExecutionContext{Context: bubbleCtx()},
				func(ctx execution.ProduceContext, rec execution.Record) error {
					events = append(events, ev{kind: "rec", rec: rec, at: time.Now()})
					if mode == "C18" && !rec.EventTime.IsZero() && !lastWM.IsZero() && !rec.EventTime.After(lastWM) {
						a := map[string]string{"node": "poll"}
						if rec.Retraction {
							a["cause"] = "retraction_of_previous_snapshot"
						}
						r.Violate("C18", "late_record", a, "poll emitted %s with event time +%v at or below its already emitted watermark +%v",
							RowString(rec.Values[1:]), rec.EventTime.Sub(start), lastWM.Sub(start))
					}
					return nil
				},
				func(ctx execution.ProduceContext, msg execution.MetadataMessage) error {
					events = append(events, ev{kind: "wm", wm: msg.Watermark, at: time.Now()})
					if mode == "C18" && msg.Watermark.Before(lastWM) {
						a := map[string]string{"node": "poll"}
						r.Violate("C18", "watermark_regressed", a, "poll watermark went backwards")
					}
					lastWM = msg.Watermark
					wms++
					if wms == rounds {
						return errStopPoll // poll has no other exit
					}
					return nil
				})
		}()
		synctest.Wait()
		<-done
	})
	if start.IsZero() {
		return // bubble failed; already recorded
	}
	r.AddEvents(len(events))
	rel := func(x time.Time) string { return fmt.Sprintf("+%v", x.Sub(start)) }
	for _, e := range events {
		if e.kind == "wm" {
			r.SinkLog("  out wm(%s) at %s", rel(e.wm), rel(e.at))
		} else {
			sign := "+"
			if e.rec.Retraction {
				sign = "-"
			}
			r.SinkLog("  out %s%s time=%s et=%s at %s", sign, RowString(e.rec.Values[1:]), rel(e.rec.Values[0].Time), rel(e.rec.EventTime), rel(e.at))
		}
	}
	r.Log("run returned err=%v", runErr)
	if mode != "C21" {
		return
	}
	if runErr == nil || !strings.Contains(runErr.Error(), errStopPoll.Error()) {
		r.Violate("C21", "run_error", attrs, "poll ended with %v before %d rounds were observed", runErr, rounds)
		return
	}
	// walk the rounds
	pos := 0
	now := start
	var prevNow time.Time
	for round := 0; round < rounds; round++ {
		if round > 0 {
			now = prevNow.Add(time.Second + stall[round-1])
			// retractions of exactly the previous snapshot
			want := NewMS()
			for _, row := range snaps[round-1] {
				want.Add(row, 1)
			}
			got := NewMS()
			for k := 0; k < len(snaps[round-1]); k++ {
				if pos >= len(events) || events[pos].kind != "rec" || !events[pos].rec.Retraction {
					break
				}
				e := events[pos]
				if !e.rec.Values[0].Time.Equal(prevNow) || !e.rec.EventTime.Equal(prevNow) {
					r.Violate("C21", "poll_retraction_time", attrs, "round %d retracts %s with time %s / event time %s, the previous round ran at %s", round, RowString(e.rec.Values[1:]), rel(e.rec.Values[0].Time), rel(e.rec.EventTime), rel(prevNow))
				}
				got.Add(e.rec.Values[1:], 1)
				pos++
			}
			if d := got.Diff(want); d != "" {
				r.Violate("C21", "poll_retractions", attrs, "round %d did not retract exactly the previous snapshot: %s", round, d)
				return
			}
		}
		want := NewMS()
		for _, row := range snaps[round] {
			want.Add(row, 1)
		}
		got := NewMS()
		for k := 0; k < len(snaps[round]); k++ {
			if pos >= len(events) || events[pos].kind != "rec" || events[pos].rec.Retraction {
				break
			}
			e := events[pos]
			if !e.rec.Values[0].Time.Equal(now) || !e.rec.EventTime.Equal(now) {
				r.Violate("C21", "poll_time", attrs, "round %d emits %s with time %s / event time %s, the round started at %s on the simulated clock", round, RowString(e.rec.Values[1:]), rel(e.rec.Values[0].Time), rel(e.rec.EventTime), rel(now))
			}
			got.Add(e.rec.Values[1:], 1)
			pos++
		}
		if d := got.Diff(want); d != "" {
			r.Violate("C21", "poll_snapshot", attrs, "round %d did not emit exactly the current snapshot: %s", round, d)
			return
		}
		if pos >= len(events) || events[pos].kind != "wm" {
			r.Violate("C21", "poll_watermark", attrs, "round %d is not followed by a watermark", round)
			return
		}
		if !events[pos].wm.Equal(now) {
			r.Violate("C21", "poll_watermark", attrs, "round %d watermark is %s, the round started at %s", round, rel(events[pos].wm), rel(now))
		}
		pos++
		prevNow = now
	}
	r.AddSimTime(int64(prevNow.Sub(start)))
	if pos != len(events) {
		r.Violate("C21", "poll_extra", attrs, "%d unexpected outputs after round %d", len(events)-pos, rounds-1)
	}
}
