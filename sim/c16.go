package sim

import (
	"fmt"
	"sort"
	"strings"
	"time"

	"github.com/cube2222/octosql/execution"
	"github.com/cube2222/octosql/octosql"
	"github.com/cube2222/octosql/physical"
)

func init() { register("c16", func(r *Run) { groupBySQLScenario(r, "C16") }) }

func (c triggerCfg) sql() string {
	var parts []string
	if c.counting > 0 {
		parts = append(parts, fmt.Sprintf("COUNTING %d", c.counting))
	}
	if c.watermark {
		parts = append(parts, "ON WATERMARK")
	}
	if c.eos {
		parts = append(parts, "ON END OF STREAM")
	}
	if len(parts) == 0 {
		return ""
	}
	return " TRIGGER " + strings.Join(parts, ", ")
}

// groupBySQLScenario: SELECT k, t, COUNT(v), SUM(v), MIN(v) FROM sim.s GROUP BY k, t TRIGGER ... through the
// real planner (ParseTrigger, MultiTrigger construction, SimpleGroupBy/CustomTriggerGroupBy choice).
// sim.s declares t as its time field and every record's event time equals t.
// C16: consolidated output at end of stream == batch grouping of the consolidated input.
func groupBySQLScenario(r *Run, mode string) {
	t := r.Tape
	hdr := t.Block(20)
	maxSteps := 8
	if r.Thorough() {
		maxSteps = []int{6, 12, 24}[hdr.Draw(3)]
	}
	var cfg triggerCfg
	noClause := hdr.Chance(1, 8)
	if !noClause {
		cfg = drawTriggerCfg(hdr)
	}
	byTime := cfg.watermark || hdr.Chance(2, 3) // ON WATERMARK needs the time field in the key
	watermarked := cfg.watermark || hdr.Chance(2, 3)
	optimize := hdr.Chance(1, 2)

	row := func(t *Tape, i, sec int) []octosql.Value {
		var v octosql.Value
		if x := t.Draw(5); x == 4 {
			v = octosql.NewNull()
		} else {
			v = intv(x)
		}
		ts := sec
		if ts == 0 {
			ts = 1 + t.Draw(3)
		}
		return []octosql.Value{intv(1 + t.Draw(3)), octosql.NewTime(T(ts)), v}
	}
	script := GenChangelog(t.Block(stepBlock*maxSteps+10), ChangelogCfg{MaxSteps: maxSteps, Watermarked: watermarked, Retractions: true, Dups: true,
		Row: row, FinalWM: true, RetractSameTime: true, LateRecords: mode == "C16"})
	key := "k"
	if byTime {
		key = "k, t"
	}
	sql := fmt.Sprintf("SELECT %s, COUNT(v) AS c, SUM(v) AS s, MIN(v) AS m, ARRAY_AGG(v) AS a FROM sim.s s GROUP BY %s%s", key, key, cfg.sql())
	// In some runs the result is observed the way a user sees it: printed by `octosql -o <mode>` (RunE's own
	// tail and the real printers, see cli.go). Only where every printed value is an int or NULL (no time column
	// in the key, no list): the encodings are C25's business, and the csv formatter cannot print a list at all.
	printMode := ""
	if mode == "C16" && hdr.Chance(1, 3) {
		printMode = OutputModes[hdr.Draw(len(OutputModes))]
		sql = fmt.Sprintf("SELECT %s, COUNT(v) AS c, SUM(v) AS s, MIN(v) AS m FROM sim.s s GROUP BY %s%s", key, key, cfg.sql())
	}
	attrs := map[string]string{"trigger": cfg.Kinds(), "by_time": fmt.Sprint(byTime)}
	if noClause {
		attrs["trigger"] = "none"
	}
	if printMode != "" {
		attrs["output"] = printMode
		// does the input contain late data (a record at or below a watermark already delivered)?
		var wmSeen time.Time
		for _, m := range script {
			if m.Kind == MsgWM {
				wmSeen = m.ET
			} else if !m.ET.IsZero() && !wmSeen.IsZero() && !m.ET.After(wmSeen) {
				attrs["late_input"] = "true"
			}
		}
	}
	r.Log("sql: %s (optimize=%v, watermarked=%v)", sql, optimize, watermarked)
	r.Log("in: %s", ScriptString(script))
	r.Shape(cfg.String(), noClause, byTime, watermarked, optimize, scriptShape(script))
	r.Sched(ScriptString(script))
	r.NonTrivial(len(script) >= 2)
	r.AddSimTime(int64(len(script)) * int64(time.Second))

	timeField := -1
	if watermarked {
		timeField = 1
	}
	sourceEnded := false
	tables := map[string]*SimTable{"s": {
		Fields:    []physical.SchemaField{{Name: "k", Type: octosql.Int}, {Name: "t", Type: octosql.Time}, {Name: "v", Type: intOrNull}},
		TimeField: timeField, NoRetractions: false,
		Source: func() execution.Node {
			return &ScriptSource{Name: "S", Msgs: script, OnEOS: func() { sourceEnded = true }}
		},
	}}
	var planned *Planned
	var err error
	if printMode == "" {
		planned, err = PlanSQL(bubbleCtx(), sql, tables, optimize)
		if err != nil {
			if cfg.watermark && !watermarked {
				return // planner rejects ON WATERMARK without a time field: not a run
			}
			r.Infra("query did not plan: %v", err)
			return
		}
	}

	// reference: batch grouping of the consolidated input
	in := NewMS()
	for _, m := range script {
		if m.Kind == MsgRec {
			if m.Retr {
				in.Add(m.Values, -1)
			} else {
				in.Add(m.Values, 1)
			}
		}
	}
	keyIdx := []int{0}
	if byTime {
		keyIdx = []int{0, 1}
	}
	want := NewMS()
	type acc struct {
		key         []octosql.Value
		n, sum, min int64
		vals        []int64
	}
	groups := map[string]*acc{}
	var order []string
	for _, rw := range in.Rows() {
		k := project(rw, keyIdx)
		ks := RowKey(k)
		g := groups[ks]
		if g == nil {
			g = &acc{key: k}
			groups[ks] = g
			order = append(order, ks)
		}
		if rw[2].TypeID != octosql.TypeIDNull {
			if g.n == 0 || rw[2].Int < g.min {
				g.min = rw[2].Int
			}
			g.n++
			g.sum += rw[2].Int
			g.vals = append(g.vals, rw[2].Int)
		}
	}
	for _, ks := range order {
		g := groups[ks]
		rw := append([]octosql.Value{}, g.key...)
		if g.n > 0 {
			sort.Slice(g.vals, func(i, j int) bool { return g.vals[i] < g.vals[j] })
			list := make([]octosql.Value, len(g.vals))
			for i, x := range g.vals {
				list[i] = octosql.NewInt(x)
			}
			rw = append(rw, octosql.NewInt(g.n), octosql.NewInt(g.sum), octosql.NewInt(g.min), octosql.NewList(list))
		} else {
			rw = append(rw, octosql.NewNull(), octosql.NewNull(), octosql.NewNull(), octosql.NewNull())
		}
		if printMode != "" {
			rw = rw[:len(rw)-1]
		}
		want.Add(rw, 1)
	}

	running := NewMS()
	var lastWM time.Time
	nOut := 0
	produce := func(ctx execution.ProduceContext, rec execution.Record) error {
		r.SinkLog("  out %s", Msg{Kind: MsgRec, Values: rec.Values, Retr: rec.Retraction, ET: rec.EventTime})
		nOut++
		d := 1
		if rec.Retraction {
			d = -1
		}
		running.Add(rec.Values, d)
		if mode == "C18" && !rec.EventTime.IsZero() && !lastWM.IsZero() && !rec.EventTime.After(lastWM) {
			a := map[string]string{"node": "group_by_sql", "trigger": attrs["trigger"]}
			if sourceEnded {
				a["cause"] = "group_by_end_of_stream_emission"
			}
			r.Violate("C18", "late_record", a, "record %s emitted with event time %s at or below already emitted watermark %s",
				RowString(rec.Values), Sec(rec.EventTime), Sec(lastWM))
		}
		return nil
	}
	metaSend := func(ctx execution.ProduceContext, msg execution.MetadataMessage) error {
		r.SinkLog("  out wm(%s)", Sec(msg.Watermark))
		nOut++
		if mode == "C18" && msg.Watermark.Before(lastWM) {
			a := map[string]string{"node": "group_by_sql", "trigger": attrs["trigger"]}
			r.Violate("C18", "watermark_regressed", a, "watermark %s emitted after %s", Sec(msg.Watermark), Sec(lastWM))
		}
		if msg.Watermark.After(lastWM) {
			lastWM = msg.Watermark
		}
		return nil
	}
	if printMode != "" {
		text, oc := RunCLI(r, sql, tables, optimize, printMode, NewCtl(), func(en []string) int { return 0 }, 20000)
		r.Probe("printed_" + printMode)
		if !oc.Finished {
			r.Violate("C16", "deadlock", attrs, "the grouping query did not return")
			return
		}
		if oc.Err != nil {
			if cfg.watermark && !watermarked {
				return
			}
			if strings.HasPrefix(oc.Err.Error(), "couldn't run query") || strings.HasPrefix(oc.Err.Error(), "panic") {
				r.Violate("C16", "run_error", attrs, "grouping query failed on a valid changelog: %v", oc.Err)
			} else {
				r.Infra("query did not plan: %v", oc.Err)
			}
			return
		}
		r.Log("printed:\n%s", ansiRe.ReplaceAllString(text, ""))
		pcols := []string{"k", "c", "s", "m"}
		if byTime {
			pcols = []string{"k", "t", "c", "s", "m"}
		}
		printed, derr := DecodePrinted(printMode, pcols, text)
		if derr != nil {
			r.Violate("C16", "unreadable_output", attrs, "%v", derr)
			return
		}
		for _, p := range printed {
			nOut++
			if p.Retr {
				running.Add(p.Values, -1)
			} else {
				running.Add(p.Values, 1)
			}
		}
		r.AddEvents(nOut)
		if d := running.Diff(want); d != "" {
			r.Violate("C16", "final_mismatch", attrs, "rows printed with -o %s != batch grouping of the input: %s", printMode, d)
		}
		return
	}
	runNode := func() {
		defer func() {
			if p := recover(); p != nil {
				err = fmt.Errorf("panic: %v", p)
			}
		}()
		err = planned.Node.Run(execution.ExecutionContext{Context: bubbleCtx()}, produce, metaSend)
	}
	runNode()
	if mode == "C16" && err == nil && hdr.Chance(1, 4) {
		// a materialised plan may be run more than once (the joined side of a LOOKUP JOIN, a subquery per
		// outer row): the second run over the same stream starts from scratch and must end with the same result
		if d := running.Diff(want); d == "" {
			r.Probe("node_run_twice")
			r.Log("second run of the same node")
			attrs["second_run_of_the_node"] = "true"
			running, lastWM, sourceEnded = NewMS(), time.Time{}, false
			runNode()
		}
	}
	r.AddEvents(nOut)
	r.Log("run returned err=%v", err)
	if mode != "C16" {
		return
	}
	if err != nil {
		r.Violate("C16", "run_error", attrs, "grouping query failed on a valid changelog: %v", err)
		return
	}
	if d := running.Diff(want); d != "" {
		r.Violate("C16", "final_mismatch", attrs, "consolidated output at end of stream != batch grouping of the input: %s", d)
	}
}
