package sim

import (
	"fmt"
	"math/rand"
	"runtime"
	"strings"
)

// Tape is the only source of choice in a simulated run. In generate mode every
// draw comes from a PRNG seeded from (VERIF_SEED, check, run index); in replay
// mode the recorded values are served again (reduced modulo the bound, 0 when
// the tape is exhausted), which is what makes shrinking the tape equivalent to
// shrinking scenario, schedule and faults at once.
//
// Block(n) reserves a fixed window of n slots for a sub-generator, so that
// simplifying one part of a scenario (say, the left script) does not shift the
// draws of the parts that follow it (the right script, the schedule).
type BlockSpan struct{ Start, End int }

type tapeCore struct {
	blocks   []BlockSpan
	buf      []uint32
	drawn    []bool
	isReplay bool
	rng      *rand.Rand
	// a draw from an exhausted block returns 0 without being recorded: a block sized too small in a
	// check silently pins every later choice to its simplest value. Remembered and reported as a
	// harness problem at the end of the run.
	overflows  int
	overflowAt string
}

type Tape struct {
	c     *tapeCore
	pos   int
	limit int // exclusive end of this tape's window; <0 = unbounded
}

func splitmix(x uint64) uint64 {
	x += 0x9e3779b97f4a7c15
	x = (x ^ (x >> 30)) * 0xbf58476d1ce4e5b9
	x = (x ^ (x >> 27)) * 0x94d049bb133111eb
	return x ^ (x >> 31)
}

func RunSeed(seed int64, check string, run int64) int64 {
	h := splitmix(uint64(seed))
	for _, c := range []byte(check) {
		h = splitmix(h ^ uint64(c))
	}
	h = splitmix(h ^ uint64(run))
	return int64(h >> 1)
}

func NewGenTape(seed int64) *Tape {
	return &Tape{c: &tapeCore{rng: rand.New(rand.NewSource(seed))}, limit: -1}
}

func NewReplayTape(vals []uint32) *Tape {
	return &Tape{c: &tapeCore{buf: append([]uint32(nil), vals...), isReplay: true}, limit: -1}
}

// Blocks returns the block windows reserved during the run, in creation order.
func (t *Tape) Blocks() []BlockSpan { return t.c.blocks }

// Overflow reports draws made from an exhausted block (count, first call site).
func (t *Tape) Overflow() (int, string) { return t.c.overflows, t.c.overflowAt }

// Recorded returns the normalised tape consumed so far (trailing zeros cut).
func (t *Tape) Recorded() []uint32 {
	c := t.c
	n := len(c.buf)
	if len(c.drawn) < n {
		n = len(c.drawn)
	}
	out := make([]uint32, n)
	for i := 0; i < n; i++ {
		if c.drawn[i] {
			out[i] = c.buf[i]
		}
	}
	for len(out) > 0 && out[len(out)-1] == 0 {
		out = out[:len(out)-1]
	}
	return out
}

func (c *tapeCore) slot(i int, n uint32) uint32 {
	for len(c.buf) <= i {
		c.buf = append(c.buf, 0)
	}
	for len(c.drawn) <= i {
		c.drawn = append(c.drawn, false)
	}
	if !c.drawn[i] {
		c.drawn[i] = true
		if !c.isReplay {
			c.buf[i] = uint32(c.rng.Int63n(int64(n)))
		}
	}
	c.buf[i] %= n
	return c.buf[i]
}

// Draw returns a value in [0,n). Smaller is "simpler" for the shrinker.
func (t *Tape) Draw(n int) int {
	if n < 1 {
		n = 1
	}
	if t.limit >= 0 && t.pos >= t.limit {
		t.c.overflows++
		if t.c.overflowAt == "" {
			for skip := 1; skip < 6; skip++ {
				_, file, line, ok := runtime.Caller(skip)
				if ok && !strings.HasSuffix(file, "/tape.go") {
					t.c.overflowAt = fmt.Sprintf("%s:%d", file[strings.LastIndex(file, "/")+1:], line)
					break
				}
			}
		}
		return 0 // block exhausted: simplest value, nothing recorded
	}
	v := t.c.slot(t.pos, uint32(n))
	t.pos++
	return int(v)
}

// Block reserves the next n slots and returns a tape confined to them.
func (t *Tape) Block(n int) *Tape {
	start := t.pos
	end := start + n
	if t.limit >= 0 && end > t.limit {
		end = t.limit
	}
	if start > end {
		start = end
	}
	t.pos = end
	t.c.blocks = append(t.c.blocks, BlockSpan{start, end})
	return &Tape{c: t.c, pos: start, limit: end}
}

// Chance is true with probability num/den; false is the simple value.
func (t *Tape) Chance(num, den int) bool {
	return t.Draw(den) >= den-num
}

// Range returns a value in [lo,hi] (inclusive); lo is the simple value.
func (t *Tape) Range(lo, hi int) int {
	if hi < lo {
		hi = lo
	}
	return lo + t.Draw(hi-lo+1)
}

// Weighted picks an index with the given weights; index 0 is the simple value.
func (t *Tape) Weighted(w ...int) int {
	total := 0
	for _, x := range w {
		total += x
	}
	r := t.Draw(total)
	for i, x := range w {
		if r < x {
			return i
		}
		r -= x
	}
	return len(w) - 1
}
