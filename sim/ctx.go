package sim

import (
	"context"

	"github.com/cube2222/octosql/config"
)

// simConfig is the octosql configuration seen by datasources in a run.
var simConfig = &config.Config{Files: config.FilesConfig{BufferSizeBytes: 4096 * 1024, JSON: config.JSONConfig{MaxLineSizeBytes: 1024 * 1024}}}

func bubbleCtx() context.Context {
	return config.ContextWithConfig(context.Background(), simConfig)
}
