package sim

import (
	"sync/atomic"
	"testing"
	"testing/synctest"
	"time"

	"github.com/cube2222/octosql/execution"
	"github.com/cube2222/octosql/execution/nodes"
	"github.com/cube2222/octosql/octosql"
)

func init() {
	register("c19", func(r *Run) { joinScenario(r, "C19") })
}

// delivered input of one join side, as seen by the oracle
type deliveredRec struct {
	vals []octosql.Value
	retr bool
	et   time.Time
}

func consolidateUpTo(recs []deliveredRec, w time.Time, all bool) *MS {
	ms := NewMS()
	for _, d := range recs {
		if all || d.et.IsZero() || !d.et.After(w) {
			if d.retr {
				ms.Add(d.vals, -1)
			} else {
				ms.Add(d.vals, 1)
			}
		}
	}
	return ms
}

type outRec struct {
	vals []octosql.Value
	retr bool
	et   time.Time
}

// joinScenario runs a real StreamJoin / OuterJoin over two gated scripted
// sources under a tape-chosen interleaving and checks, depending on mode:
//
//	C19: at every emitted watermark W, consolidated output (records with event
//	     time <= W) == reference join of delivered input with event time <= W;
//	     at end of stream == reference join of the complete inputs; Run == nil.
//	C18: emitted watermarks non-decreasing; no record with non-zero event time
//	     at or below an already emitted watermark.
//	C15: running output multiplicity never negative (changelog validity), and
//	     final consolidated output == reference join.
func joinScenario(r *Run, mode string) {
	t := r.Tape
	maxSteps := 6
	if r.Thorough() {
		maxSteps = []int{4, 8, 14, 20}[t.Draw(4)]
	}
	kind := JoinKind(t.Draw(4))
	nKeys := t.Weighted(6, 3, 1) // 1, 2 or 0 key columns
	if nKeys == 2 {
		nKeys = 0
	} else {
		nKeys++
	}
	wmL, wmR := t.Chance(3, 4), t.Chance(3, 4)
	keyDom := 1 + t.Draw(3)
	mkRow := func(prefix string) func(t *Tape, i, sec int) []octosql.Value {
		return func(t *Tape, i, sec int) []octosql.Value {
			// a NULL now and then: an equality never matches a NULL key, in any key column
			k1, k2 := intv(1+t.Draw(keyDom)), intv(1+t.Draw(2))
			if t.Draw(10) == 0 {
				k1 = octosql.NewNull()
			}
			if t.Draw(10) == 0 {
				k2 = octosql.NewNull()
			}
			return []octosql.Value{k1, k2, idv(prefix, i)}
		}
	}
	scriptL := GenChangelog(t.Block(stepBlock*maxSteps+10), ChangelogCfg{MaxSteps: maxSteps, Watermarked: wmL, Retractions: true, Dups: true, Row: mkRow("l"), FinalWM: true})
	scriptR := GenChangelog(t.Block(stepBlock*maxSteps+10), ChangelogCfg{MaxSteps: maxSteps, Watermarked: wmR, Retractions: true, Dups: true, Row: mkRow("r"), FinalWM: true})
	sticky := []int{0, 50, 90}[t.Draw(3)]

	attrs := map[string]string{"node": "StreamJoin", "kind": kind.String()}
	if kind != JoinInner {
		attrs["node"] = "OuterJoin"
	}
	r.Log("join kind=%s keys=%d wmL=%v wmR=%v sticky=%d", kind, nKeys, wmL, wmR, sticky)
	r.Log("L: %s", ScriptString(scriptL))
	r.Log("R: %s", ScriptString(scriptR))
	r.Shape(kind, nKeys, wmL, wmR, scriptShape(scriptL), scriptShape(scriptR))

	keyIdx := make([]int, nKeys)
	keyL := make([]execution.Expression, nKeys)
	keyR := make([]execution.Expression, nKeys)
	for i := 0; i < nKeys; i++ {
		keyIdx[i] = i
		keyL[i] = execution.NewVariable(0, i)
		keyR[i] = execution.NewVariable(0, i)
	}

	ctl := NewCtl()
	var delL, delR []deliveredRec
	var closedL, closedR atomic.Bool // set by the sources, read by the sink and by the controller
	srcL := &ScriptSource{Name: "L", Msgs: scriptL, Ctl: ctl}
	srcR := &ScriptSource{Name: "R", Msgs: scriptR, Ctl: ctl}
	srcL.OnDeliver = func(i int) {
		if m := scriptL[i]; m.Kind == MsgRec {
			delL = append(delL, deliveredRec{m.Values, m.Retr, m.ET})
		}
	}
	srcR.OnDeliver = func(i int) {
		if m := scriptR[i]; m.Kind == MsgRec {
			delR = append(delR, deliveredRec{m.Values, m.Retr, m.ET})
		}
	}
	srcL.OnEOS = func() { closedL.Store(true) }
	srcR.OnEOS = func() { closedR.Store(true) }

	var node execution.Node
	if kind == JoinInner {
		node = nodes.NewStreamJoin(srcL, srcR, keyL, keyR)
	} else {
		node = nodes.NewOuterJoin(srcL, srcR, 3, 3, keyL, keyR, kind == JoinLeft || kind == JoinFull, kind == JoinRight || kind == JoinFull)
	}

	var outs []outRec
	running := NewMS()
	var lastWM time.Time
	wmCount := 0
	produce := func(ctx execution.ProduceContext, rec execution.Record) error {
		r.SinkLog("  out %s", Msg{Kind: MsgRec, Values: rec.Values, Retr: rec.Retraction, ET: rec.EventTime})
		outs = append(outs, outRec{rec.Values, rec.Retraction, rec.EventTime})
		d := 1
		if rec.Retraction {
			d = -1
		}
		c := running.Add(rec.Values, d)
		if mode == "C15" && c < 0 {
			r.Violate("C15", "retract_absent", attrs, "join retracted a row that is not present: %s", RowString(rec.Values))
		}
		if mode == "C18" && !rec.EventTime.IsZero() && !lastWM.IsZero() && !rec.EventTime.After(lastWM) {
			r.Violate("C18", "late_record", attrs, "record %s emitted with event time %s at or below already emitted watermark %s",
				RowString(rec.Values), Sec(rec.EventTime), Sec(lastWM))
		}
		return nil
	}
	metaSend := func(ctx execution.ProduceContext, msg execution.MetadataMessage) error {
		w := msg.Watermark
		r.SinkLog("  out wm(%s)", Sec(w))
		wmCount++
		if mode == "C18" && w.Before(lastWM) {
			r.Violate("C18", "watermark_regressed", attrs, "watermark %s emitted after %s", Sec(w), Sec(lastWM))
		}
		if w.After(lastWM) {
			lastWM = w
		}
		if mode == "C19" {
			got := NewMS()
			early := false
			for _, o := range outs {
				if o.et.IsZero() || !o.et.After(w) {
					if o.retr {
						got.Add(o.vals, -1)
					} else {
						got.Add(o.vals, 1)
					}
				} else {
					early = true
				}
			}
			if early {
				r.Probe("output_beyond_watermark_pending")
			}
			want := RefJoin(kind, consolidateUpTo(delL, w, false), consolidateUpTo(delR, w, false), keyIdx, keyIdx, 3, 3, false, nil)
			if d := got.Diff(want); d != "" {
				a := cloneAttrs(attrs)
				a["phase"] = phaseName(closedL.Load(), closedR.Load())
				r.Violate("C19", "at_watermark", a, "at emitted watermark %s consolidated output != join of input with event time <= W: %s", Sec(w), d)
			}
		}
		return nil
	}

	var lastSide byte
	schedule := make([]byte, 0, 64)
	choose := func(en []string) int {
		// en is sorted: "L:..." before "R:..."
		pick := 0
		if lastSide != 0 && t.Draw(100) < sticky {
			if en[1][0] == lastSide {
				pick = 1
			}
		} else {
			pick = t.Draw(len(en))
		}
		return pick
	}
	ctlHook := func(key string) {
		lastSide = key[0]
		schedule = append(schedule, key[0])
		if key[len(key)-1] == 's' { // eos
			schedule = append(schedule, '$')
			otherOpen := (key[0] == 'L' && !closedR.Load()) || (key[0] == 'R' && !closedL.Load())
			if otherOpen {
				r.Probe("closed_first_" + string(key[0]))
			}
		}
	}
	ctl.OnRelease = ctlHook
	oc := RunGated(r, node, ctl, produce, metaSend, choose, 10000)
	runErr, finished, deadlock := oc.Err, oc.Finished, oc.Deadlock
	r.Sched(string(schedule))
	if oc.Finished {
		r.AddEvents(len(outs) + wmCount)
	}
	r.NonTrivial(len(scriptL)+len(scriptR) >= 2 && len(schedule) >= 3)
	r.AddSimTime(int64(time.Duration(len(scriptL)+len(scriptR)) * time.Second))

	if deadlock {
		if mode == "C19" {
			r.Violate("C19", "deadlock", attrs, "join neither finished nor has any source message left to deliver")
		}
		return
	}
	if !finished {
		r.Infra("step cap reached")
		return
	}
	r.Log("run returned err=%v, %d outputs, %d watermarks", runErr, len(outs), wmCount)
	if runErr != nil {
		if mode == "C19" {
			r.Violate("C19", "run_error", attrs, "join returned an error on valid input: %v", runErr)
		}
		return
	}
	if mode == "C19" || mode == "C15" {
		want := RefJoin(kind, consolidateUpTo(delL, time.Time{}, true), consolidateUpTo(delR, time.Time{}, true), keyIdx, keyIdx, 3, 3, false, nil)
		if d := running.Diff(want); d != "" {
			a := cloneAttrs(attrs)
			r.Violate(mode, "at_end_of_stream", a, "final consolidated output != join of complete inputs: %s", d)
		}
	}
}

func phaseName(closedL, closedR bool) string {
	switch {
	case closedL && closedR:
		return "both_closed"
	case closedL:
		return "left_closed"
	case closedR:
		return "right_closed"
	}
	return "both_open"
}

func cloneAttrs(a map[string]string) map[string]string {
	o := map[string]string{}
	for k, v := range a {
		o[k] = v
	}
	return o
}

// bubble runs f inside a synctest bubble, turning the end-of-bubble deadlock
// panic (goroutines of the system under test still blocked) into an infra
// result instead of a crash.
func bubble(r *Run, f func()) {
	if p := bubbleRecover(r, f); p != nil {
		r.Infra("bubble panic: %v", p)
	}
}

// bubbleRecover is bubble, but hands the panic value to the caller.
func bubbleRecover(r *Run, f func()) (panicked any) {
	defer func() {
		if p := recover(); p != nil {
			panicked = p
		}
	}()
	synctest.Test(r.T, func(_ *testing.T) { f() })
	return nil
}
