package sim

import (
	"fmt"
	"sort"
	"time"

	"github.com/cube2222/octosql/execution"
	"github.com/cube2222/octosql/execution/nodes"
	"github.com/cube2222/octosql/octosql"
	"github.com/cube2222/octosql/physical"
)

func init() {
	register("c18", func(r *Run) {
		switch r.Tape.Weighted(3, 3, 3, 2, 2, 1, 3) {
		case 6:
			// group-by keyed without the time column, counting trigger, retractions with their own event times
			c18ForceRefire = true
			opScenario(r, "C18")
			c18ForceRefire = false
		case 0:
			eventTimeBufferScenario(r)
		case 1:
			opScenario(r, "C18")
		case 2:
			joinScenario(r, "C18")
		case 3:
			groupBySQLScenario(r, "C18")
		case 4:
			pipelineScenario(r, "C18")
		case 5:
			pollScenario(r, "C18")
		}
	})
}

// eventTimeBufferScenario: the real nodes.EventTimeBuffer. Every input record
// is released exactly once, unchanged, in event-time order (ties in arrival
// order), before the first forwarded watermark at or above its event time, the
// rest at end of stream; zero-time records pass straight through.
func eventTimeBufferScenario(r *Run) {
	t := r.Tape
	hdr := t.Block(4)
	maxSteps := 10
	if r.Thorough() {
		maxSteps = []int{8, 16, 32}[hdr.Draw(3)]
	}
	row := func(t *Tape, i, sec int) []octosql.Value { return []octosql.Value{idv("x", i), intv(t.Draw(3))} }
	script := GenChangelog(t.Block(stepBlock*maxSteps+10), ChangelogCfg{MaxSteps: maxSteps, Watermarked: true, Retractions: true, Dups: false,
		Row: row, FinalWM: true, ZeroTimeMix: true})
	attrs := map[string]string{"node": "EventTimeBuffer"}
	r.Log("event time buffer")
	r.Log("in: %s", ScriptString(script))
	r.Shape("etb", scriptShape(script))
	r.Sched(ScriptString(script))
	r.NonTrivial(len(script) >= 2)
	r.AddSimTime(int64(len(script)) * int64(time.Second))

	type pend struct {
		m   Msg
		seq int
	}
	var pending []pend // specification: what must still be held back
	var expect []Msg   // specification: exact output sequence expected so far
	delivering := -1
	src := &ScriptSource{Name: "S", Msgs: script}
	src.OnDeliver = func(i int) {
		delivering = i
		m := script[i]
		if m.Kind == MsgRec {
			if m.ET.IsZero() {
				expect = append(expect, m)
			} else {
				pending = append(pending, pend{m, i})
			}
			return
		}
		sort.SliceStable(pending, func(a, b int) bool { return pending[a].m.ET.Before(pending[b].m.ET) })
		n := 0
		for _, p := range pending {
			if !p.m.ET.After(m.ET) {
				expect = append(expect, p.m)
				n++
			}
		}
		pending = pending[n:]
		expect = append(expect, m)
	}
	src.OnEOS = func() {
		sort.SliceStable(pending, func(a, b int) bool { return pending[a].m.ET.Before(pending[b].m.ET) })
		for _, p := range pending {
			expect = append(expect, p.m)
		}
		pending = nil
	}
	var got []Msg
	pos := 0
	observe := func(m Msg) {
		r.SinkLog("  out %s", m)
		got = append(got, m)
		if pos >= len(expect) {
			r.Violate("C18", "buffer_order", attrs, "during delivery %d the buffer emitted %s, nothing was due", delivering, m)
			return
		}
		e := expect[pos]
		pos++
		if e.String() != m.String() {
			r.Violate("C18", "buffer_order", attrs, "output #%d is %s, specified %s (event-time order, ties in arrival order, released before the first watermark at or above the event time)", pos, m, e)
		}
	}
	node := nodes.NewEventTimeBuffer(src)
	var err error
	func() {
		defer func() {
			if p := recover(); p != nil {
				err = fmt.Errorf("panic: %v", p)
			}
		}()
		err = node.Run(execution.ExecutionContext{Context: bubbleCtx()},
			func(ctx execution.ProduceContext, rec execution.Record) error {
				observe(Msg{Kind: MsgRec, Values: rec.Values, Retr: rec.Retraction, ET: rec.EventTime})
				return nil
			},
			func(ctx execution.ProduceContext, msg execution.MetadataMessage) error {
				observe(Msg{Kind: MsgWM, ET: msg.Watermark})
				return nil
			})
	}()
	r.AddEvents(len(got))
	r.Log("run returned err=%v", err)
	if err != nil {
		r.Violate("C18", "run_error", attrs, "event time buffer failed: %v", err)
		return
	}
	if pos != len(expect) {
		r.Violate("C18", "buffer_lost", attrs, "the buffer emitted %d of the %d messages due (first missing: %s)", pos, len(expect), expect[pos])
	}
}

// pipelineScenario: a small streaming pipeline planned from SQL:
// max_diff_watermark -> tumble -> GROUP BY window_end, k TRIGGER ... [-> JOIN with a batch table],
// with the C18 monitor on its output.
func pipelineScenario(r *Run, mode string) {
	t := r.Tape
	hdr := t.Block(24)
	maxSteps := 8
	if r.Thorough() {
		maxSteps = []int{6, 12, 24}[hdr.Draw(3)]
	}
	cfg := triggerCfg{watermark: true}
	if hdr.Chance(1, 2) {
		cfg = drawTriggerCfg(hdr)
	}
	withJoin := hdr.Chance(1, 2)
	joinKind := hdr.Draw(3) // inner, left, outer
	maxDiff := hdr.Draw(3)
	window := 2 + 2*hdr.Draw(2)
	sticky := []int{0, 50, 90}[hdr.Draw(3)]

	var events []Msg
	cur := 0
	body := t.Block(4*maxSteps + 4)
	for i := 0; i < maxSteps; i++ {
		sb := body.Block(4)
		if sb.Draw(maxSteps+1) == 0 {
			break
		}
		cur += sb.Draw(5) - 1
		if cur < 1 {
			cur = 1
		}
		events = append(events, Msg{Kind: MsgRec, Values: []octosql.Value{intv(1 + sb.Draw(3)), octosql.NewTime(T(cur))}})
	}
	var dim [][]octosql.Value
	if withJoin {
		db := t.Block(12)
		for i := 0; i < 4; i++ {
			if db.Draw(5) == 0 {
				break
			}
			dim = append(dim, []octosql.Value{intv(1 + db.Draw(3)), idv("d", i)})
		}
	}
	sql := fmt.Sprintf(`WITH w AS (SELECT * FROM max_diff_watermark(source=>TABLE(sim.e), max_diff=>INTERVAL %d SECONDS, time_field=>DESCRIPTOR(t)) e),
 tb AS (SELECT * FROM tumble(source=>TABLE(w), window_length=>INTERVAL %d SECONDS) x),
 g AS (SELECT window_end, k, COUNT(*) AS c FROM tb GROUP BY window_end, k%s)
`, maxDiff, window, cfg.sql())
	if withJoin {
		sql += "SELECT window_end, k, c, d.name FROM g " + []string{"JOIN", "LEFT JOIN", "OUTER JOIN"}[joinKind] + " sim.d d ON k = d.dk"
	} else {
		sql += "SELECT window_end, k, c FROM g"
	}
	attrs := map[string]string{"node": "pipeline", "trigger": cfg.Kinds(), "join": fmt.Sprint(withJoin)}
	r.Log("sql: %s", sql)
	r.Log("e: %s", ScriptString(events))
	r.Log("d: %s", tableString(dim))
	r.Shape("pipeline", cfg.String(), withJoin, joinKind, maxDiff, window, len(events), len(dim))
	r.NonTrivial(len(events) >= 2)
	r.AddSimTime(int64(cur) * int64(time.Second))

	ctl := NewCtl()
	sourceEnded := false
	tables := map[string]*SimTable{
		"e": {Fields: []physical.SchemaField{{Name: "k", Type: octosql.Int}, {Name: "t", Type: octosql.Time}}, TimeField: -1, NoRetractions: true,
			Source: func() execution.Node {
				return &ScriptSource{Name: "E", Msgs: events, Ctl: ctl, OnEOS: func() { sourceEnded = true }}
			}},
		"d": {Fields: []physical.SchemaField{{Name: "dk", Type: octosql.Int}, {Name: "name", Type: octosql.String}}, TimeField: -1, NoRetractions: true,
			Source: func() execution.Node { return &ScriptSource{Name: "D", Msgs: rowsToScript(dim), Ctl: ctl} }},
	}
	planned, err := PlanSQL(bubbleCtx(), sql, tables, hdr.Chance(1, 2))
	if err != nil {
		r.Infra("query did not plan: %v", err)
		return
	}
	var lastWM time.Time
	nOut := 0
	produce := func(ctx execution.ProduceContext, rec execution.Record) error {
		r.SinkLog("  out %s", Msg{Kind: MsgRec, Values: rec.Values, Retr: rec.Retraction, ET: rec.EventTime})
		nOut++
		if mode == "C18" && !rec.EventTime.IsZero() && !lastWM.IsZero() && !rec.EventTime.After(lastWM) {
			a := cloneAttrs(attrs)
			if sourceEnded {
				a["cause"] = "group_by_end_of_stream_emission"
			}
			r.Violate("C18", "late_record", a, "record %s emitted with event time %s at or below already emitted watermark %s",
				RowString(rec.Values), Sec(rec.EventTime), Sec(lastWM))
		}
		return nil
	}
	metaSend := func(ctx execution.ProduceContext, msg execution.MetadataMessage) error {
		r.SinkLog("  out wm(%s)", Sec(msg.Watermark))
		nOut++
		if mode == "C18" && msg.Watermark.Before(lastWM) {
			r.Violate("C18", "watermark_regressed", attrs, "watermark %s emitted after %s", Sec(msg.Watermark), Sec(lastWM))
		}
		if msg.Watermark.After(lastWM) {
			lastWM = msg.Watermark
		}
		return nil
	}
	var last byte
	var schedule []byte
	ctl.OnRelease = func(key string) {
		last = key[0]
		schedule = append(schedule, key[0])
	}
	choose := func(en []string) int {
		if last != 0 && t.Draw(100) < sticky {
			for i := range en {
				if en[i][0] == last {
					return i
				}
			}
		}
		return t.Draw(len(en))
	}
	oc := RunGated(r, planned.Node, ctl, produce, metaSend, choose, 20000)
	r.Sched(string(schedule), ScriptString(events), tableString(dim))
	r.AddEvents(nOut)
	r.Log("run returned err=%v finished=%v", oc.Err, oc.Finished)
	if oc.Deadlock || !oc.Finished {
		r.Infra("pipeline did not finish (deadlock=%v)", oc.Deadlock)
	}
}
