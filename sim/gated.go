package sim

import (
	"fmt"
	"strings"
	"testing/synctest"

	jsonds "github.com/cube2222/octosql/datasources/json"
	"github.com/cube2222/octosql/execution"
)

// GatedOutcome is how a bubble run ended.
type GatedOutcome struct {
	Err      error
	Finished bool
	Deadlock bool // quiescent, nothing to release, Run has not returned
	Steps    int
	Leaked   int // gates still parked after Run returned (goroutines the query left behind)
}

// RunGated runs node inside a synctest bubble. After every quiescence it asks
// choose to pick one of the parked gates (sorted) and releases it. It stops
// when node.Run returns, when nothing is parked (deadlock) or at the step cap.
// Afterwards all remaining gates are aborted so that the bubble can end.
func RunGated(r *Run, node execution.Node, ctl *Ctl, produce execution.ProduceFn, metaSend execution.MetaSendFn,
	choose func(enabled []string) int, stepCap int) GatedOutcome {
	return RunGatedPool(r, node, 0, ctl, produce, metaSend, choose, stepCap)
}

// RunGatedPool is RunGated with a JSON parser worker pool of the given size
// (0 = none) that lives exactly as long as the bubble: created before the
// query starts, stopped after every goroutine the query left behind has been
// released and has come to rest.
func RunGatedPool(r *Run, node execution.Node, jsonWorkers int, ctl *Ctl, produce execution.ProduceFn, metaSend execution.MetaSendFn,
	choose func(enabled []string) int, stepCap int) GatedOutcome {
	var out GatedOutcome
	rule := newJSONRule()
	p := bubbleRecover(r, func() {
		if jsonWorkers > 0 {
			jsonds.SimStartParserPool(jsonWorkers)
			defer func() {
				jsonds.SimStopParserPool()
				synctest.Wait()
			}()
		}
		done := make(chan struct{})
		go func() {
			defer close(done)
			defer func() {
				if p := recover(); p != nil {
					out.Err = fmt.Errorf("panic: %v", p)
				}
			}()
			out.Err = node.Run(execution.ExecutionContext{Context: bubbleCtx()}, produce, metaSend)
		}()
		for out.Steps = 0; out.Steps < stepCap; out.Steps++ {
			synctest.Wait()
			select {
			case <-done:
				out.Finished = true
			default:
			}
			if out.Finished {
				break
			}
			en := ctl.Enabled()
			if len(en) == 0 {
				out.Deadlock = true
				break
			}
			// the JSON rule may hold some gates back; choose among the rest
			allowed := rule.filter(en)
			sub := make([]string, len(allowed))
			for i, idx := range allowed {
				sub[i] = en[idx]
			}
			pick := 0
			if len(sub) > 1 {
				pick = choose(sub)
			}
			r.Log("release %s of %d/%d", sub[pick], len(sub), len(en))
			rule.released(sub[pick])
			ctl.Release(sub[pick])
		}
		out.Leaked = len(ctl.Enabled())
		ctl.Abort()
		for i := 0; i < 100; i++ {
			synctest.Wait()
			if len(ctl.Enabled()) == 0 {
				break
			}
			ctl.AbortLate()
		}
	})
	if p != nil && !out.Deadlock {
		// after a detected deadlock the bubble cannot end cleanly: expected, not a harness problem
		if out.Finished && strings.Contains(fmt.Sprint(p), "blocked goroutines remain") {
			// the query returned but left a goroutine blocked for good (the joins' acknowledged
			// "goroutine leak": an input still sending into a channel nobody reads after an early
			// stop). The property is about the query terminating: counted, not a violation.
			r.Probe("goroutines_left_blocked_after_run")
		} else {
			r.Infra("bubble panic: %v", p)
		}
	}
	return out
}
