package sim

import (
	"fmt"
	"sort"
	"strings"
	"time"

	"github.com/cube2222/octosql/aggregates"
	"github.com/cube2222/octosql/execution"
	"github.com/cube2222/octosql/execution/nodes"
	"github.com/cube2222/octosql/octosql"
)

func init() {
	register("c17", func(r *Run) {
		if r.Tape.Draw(3) == 0 {
			triggerObjectScenario(r)
		} else {
			triggerNodeScenario(r)
		}
	})
}

// ---- (a) trigger objects against a reference trigger model ----

type refTrigger struct {
	cfg       triggerCfg
	counts    map[string]int
	wmPending map[string]bool
	eosKeys   map[string]bool
	fired     []string // counting keys fired since last poll
	watermark time.Time
	eos       bool
	keyTime   map[string]time.Time
}

func newRefTrigger(cfg triggerCfg) *refTrigger {
	return &refTrigger{cfg: cfg, counts: map[string]int{}, wmPending: map[string]bool{}, eosKeys: map[string]bool{}, keyTime: map[string]time.Time{}}
}

func (m *refTrigger) keyReceived(k string, kt time.Time) {
	m.keyTime[k] = kt
	if m.cfg.counting > 0 {
		m.counts[k]++
		if m.counts[k] == m.cfg.counting {
			m.fired = append(m.fired, k)
			delete(m.counts, k)
		}
	}
	if m.cfg.watermark {
		m.wmPending[k] = true
	}
	if m.cfg.eos {
		m.eosKeys[k] = true
	}
}

// poll returns the multiset of keys the configured triggers must fire now.
func (m *refTrigger) poll() map[string]int {
	out := map[string]int{}
	if m.cfg.counting > 0 {
		for _, k := range m.fired {
			out[k]++
		}
		m.fired = nil
		if m.eos {
			for k := range m.counts {
				out[k]++
			}
		}
	}
	if m.cfg.watermark {
		for k := range m.wmPending {
			if m.eos || !m.keyTime[k].After(m.watermark) {
				out[k]++
				delete(m.wmPending, k)
			}
		}
	}
	if m.cfg.eos && m.eos {
		for k := range m.eosKeys {
			out[k]++
		}
	}
	return out
}

func keysString(m map[string]int) string {
	ks := make([]string, 0, len(m))
	for k, n := range m {
		ks = append(ks, fmt.Sprintf("%sx%d", k, n))
	}
	sort.Strings(ks)
	return "{" + strings.Join(ks, " ") + "}"
}

func triggerObjectScenario(r *Run) {
	t := r.Tape
	hdr := t.Block(8)
	cfg := drawTriggerCfg(hdr)
	maxSteps := 10
	if r.Thorough() {
		maxSteps = []int{8, 16, 32}[hdr.Draw(3)]
	}
	attrs := map[string]string{"level": "trigger_object", "trigger": cfg.Kinds()}
	r.Log("trigger object {%s}", cfg)
	trig := cfg.prototype(1)()
	model := newRefTrigger(cfg)
	wm := 0
	var hist strings.Builder
	body := t.Block(8*maxSteps + 8)
	steps := 0
	check := func(when string) bool {
		got := map[string]int{}
		for _, k := range trig.Poll() {
			got[fmt.Sprintf("%s@%s", ValString(k[0]), Sec(k[1].Time))]++
		}
		want := model.poll()
		r.Log("%s -> poll %s", when, keysString(got))
		if keysString(got) != keysString(want) {
			r.Violate("C17", "poll_mismatch", attrs, "after %s (history: %s) the trigger fires %s, specified: %s", when, strings.TrimSpace(hist.String()), keysString(got), keysString(want))
			return false
		}
		return true
	}
	for i := 0; i < maxSteps; i++ {
		sb := body.Block(8)
		if sb.Draw(maxSteps+1) == 0 {
			break
		}
		steps++
		if sb.Draw(4) == 0 {
			if wm > 0 && sb.Draw(4) == 0 {
				// the same watermark again (watermarks are non-decreasing, not strictly increasing)
			} else {
				wm += 1 + sb.Draw(3)
			}
			trig.WatermarkReceived(T(wm))
			model.watermark = T(wm)
			hist.WriteString(fmt.Sprintf("wm(%d) ", wm))
			if !check(fmt.Sprintf("wm(%d)", wm)) {
				return
			}
		} else {
			// first key column from {1,2,3,0,NULL}: distinct keys, two of which (0 and NULL) hash alike
			var av octosql.Value
			switch a := sb.Draw(5); a {
			case 3:
				av = intv(0)
			case 4:
				av = octosql.NewNull()
			default:
				av = intv(a + 1)
			}
			kt := wm + 1 + sb.Draw(3) // key time above the watermark; sometimes at/below it (late key)
			if sb.Draw(6) == 0 && wm > 0 {
				kt = 1 + sb.Draw(wm)
			}
			key := execution.GroupKey{av, octosql.NewTime(T(kt))}
			ks := fmt.Sprintf("%s@%d", ValString(av), kt)
			trig.KeyReceived(key)
			model.keyReceived(ks, T(kt))
			hist.WriteString("key(" + ks + ") ")
			if !check("key(" + ks + ")") {
				return
			}
		}
	}
	trig.EndOfStreamReached()
	model.eos = true
	hist.WriteString("eos")
	check("eos")
	r.Shape("object", cfg.String())
	r.Sched(hist.String())
	r.NonTrivial(steps >= 2)
	r.AddEvents(steps)
}

// ---- (b) node level: CustomTriggerGroupBy ----

// procRec is an input record in the order the group-by processes it (after the
// event-time buffer in front of it, whose release order is specified by C18).
type keyState struct {
	a        int64
	kt       time.Time
	vals     []int64 // non-NULL b values currently in the group
	nRows    int     // rows currently in the group
	received int     // records processed for this key (retractions count)
}

func (k *keyState) current() ([]octosql.Value, bool) {
	if k.nRows <= 0 {
		return nil, false
	}
	row := []octosql.Value{octosql.NewInt(k.a), octosql.NewTime(k.kt)}
	if len(k.vals) == 0 {
		return append(row, octosql.NewNull(), octosql.NewNull()), true
	}
	var s int64
	for _, v := range k.vals {
		s += v
	}
	return append(row, octosql.NewInt(int64(len(k.vals))), octosql.NewInt(s)), true
}

func triggerNodeScenario(r *Run) {
	t := r.Tape
	hdr := t.Block(8)
	cfg := drawTriggerCfg(hdr)
	maxSteps := 8
	if r.Thorough() {
		maxSteps = []int{6, 12, 24}[hdr.Draw(3)]
	}
	watermarked := cfg.watermark || hdr.Chance(1, 2)
	attrs := map[string]string{"level": "node", "trigger": cfg.Kinds()}
	script := GenChangelog(t.Block(stepBlock*maxSteps+10), ChangelogCfg{MaxSteps: maxSteps, Watermarked: watermarked, Retractions: true, Dups: true,
		Row: opRow, FinalWM: true, RetractSameTime: true})
	r.Log("group by (a, tk) trigger={%s} watermarked=%v", cfg, watermarked)
	r.Log("in: %s", ScriptString(script))
	r.Shape("node", cfg.String(), watermarked, scriptShape(script))
	r.Sched(ScriptString(script))
	r.NonTrivial(len(script) >= 2)
	r.AddSimTime(int64(len(script)) * int64(time.Second))

	// --- specification state ---
	keys := map[string]*keyState{}
	var keyOrder []string
	type buffered struct {
		m   Msg
		seq int
	}
	var buffer []buffered
	var lastWM time.Time // last watermark delivered to the node
	inEOS := false
	delivery := -1
	// per delivery bookkeeping
	crossed := map[string]bool{}        // counting multiple crossed for key in this delivery
	atCross := map[string][]string{}    // the key's current result at each crossing in this delivery (canonical form)
	statesSeen := map[string][]string{} // output states of the key during this delivery (start state and after every emission)
	out := map[string]*MS{}             // consolidated output per key
	stateOf := func(ks string) string {
		if out[ks] == nil {
			return "{}"
		}
		return out[ks].String()
	}
	process := func(m Msg) {
		ks := RowKey([]octosql.Value{m.Values[0], m.Values[2]})
		k, ok := keys[ks]
		if !ok {
			k = &keyState{a: m.Values[0].Int, kt: m.Values[2].Time}
			keys[ks] = k
			keyOrder = append(keyOrder, ks)
		}
		k.received++
		if m.Retr {
			k.nRows--
			if m.Values[1].TypeID != octosql.TypeIDNull {
				for i, v := range k.vals {
					if v == m.Values[1].Int {
						k.vals = append(k.vals[:i:i], k.vals[i+1:]...)
						break
					}
				}
			}
		} else {
			k.nRows++
			if m.Values[1].TypeID != octosql.TypeIDNull {
				k.vals = append(k.vals, m.Values[1].Int)
			}
		}
		if cfg.counting > 0 && k.received%cfg.counting == 0 {
			crossed[ks] = true
			if statesSeen[ks] == nil {
				statesSeen[ks] = []string{stateOf(ks)}
			}
			want := NewMS()
			if row, ok := k.current(); ok {
				want.Add(row, 1)
			}
			atCross[ks] = append(atCross[ks], want.String())
		}
	}
	resetDelivery := func() {
		crossed = map[string]bool{}
		atCross = map[string][]string{}
		statesSeen = map[string][]string{}
	}
	src := &ScriptSource{Name: "S", Msgs: script}
	src.OnDeliver = func(i int) {
		delivery = i
		resetDelivery()
		m := script[i]
		if m.Kind == MsgRec {
			if m.ET.IsZero() {
				process(m)
			} else {
				buffer = append(buffer, buffered{m, i})
			}
			return
		}
		// watermark: the buffer in front of the group-by releases everything at or below it, in event-time order
		sort.SliceStable(buffer, func(a, b int) bool { return buffer[a].m.ET.Before(buffer[b].m.ET) })
		n := 0
		for _, b := range buffer {
			if !b.m.ET.After(m.ET) {
				process(b.m)
				n++
			}
		}
		buffer = buffer[n:]
		lastWM = m.ET
	}
	src.OnEOS = func() {
		delivery = len(script)
		resetDelivery()
		sort.SliceStable(buffer, func(a, b int) bool { return buffer[a].m.ET.Before(buffer[b].m.ET) })
		for _, b := range buffer {
			process(b.m)
		}
		buffer = nil
		inEOS = true
	}

	varA, varB, varT := execution.NewVariable(0, 0), execution.NewVariable(0, 1), execution.NewVariable(0, 2)
	timeIdx := -1
	if cfg.watermark || hdr.Chance(1, 2) {
		timeIdx = 1
	}
	node := nodes.NewCustomTriggerGroupBy(
		[]func() nodes.Aggregate{aggregates.CountOverloads[0].Prototype, aggregates.SumOverloads[0].Prototype},
		[]execution.Expression{varB, varB}, []execution.Expression{varA, varT}, timeIdx, src, cfg.prototype(1))

	// --- observation ---
	eosInserts := map[string]int{}
	outputOf := func(ks string) *MS {
		if out[ks] == nil {
			out[ks] = NewMS()
		}
		return out[ks]
	}
	keyMatches := func(ks string) (bool, string) {
		k := keys[ks]
		want := NewMS()
		if row, ok := k.current(); ok {
			want.Add(row, 1)
		}
		d := outputOf(ks).Diff(want)
		return d == "", d
	}
	nOut := 0
	var firstRun []string
	produce := func(ctx execution.ProduceContext, rec execution.Record) error {
		r.SinkLog("  out %s", Msg{Kind: MsgRec, Values: rec.Values, Retr: rec.Retraction, ET: rec.EventTime})
		nOut++
		firstRun = append(firstRun, Msg{Kind: MsgRec, Values: rec.Values, Retr: rec.Retraction, ET: rec.EventTime}.String())
		ks := RowKey([]octosql.Value{rec.Values[0], rec.Values[1]})
		if statesSeen[ks] == nil {
			statesSeen[ks] = []string{stateOf(ks)}
		}
		d := 1
		if rec.Retraction {
			d = -1
		}
		outputOf(ks).Add(rec.Values, d)
		statesSeen[ks] = append(statesSeen[ks], stateOf(ks))
		k := keys[ks]
		if k == nil {
			r.Violate("C17", "unknown_key", attrs, "output for a key that has received no record: %s", RowString(rec.Values))
			return nil
		}
		if inEOS {
			if !rec.Retraction {
				eosInserts[ks]++
			}
			return nil
		}
		// before end of stream every emission must be justified by a configured trigger
		justified := false
		if cfg.counting > 0 && crossed[ks] {
			justified = true
		}
		if cfg.watermark {
			cur := lastWM
			if !k.kt.After(cur) {
				justified = true
			}
		}
		if !justified {
			r.Violate("C17", "unjustified_emission", attrs, "during delivery %d key (%d,%s) was emitted although no configured trigger fires it (records for key: %d, key time %s, watermark %s)",
				delivery, k.a, Sec(k.kt), k.received, Sec(k.kt), Sec(lastWM))
		}
		return nil
	}
	// required emissions are checked at the end of each delivery; the instant a
	// watermark is forwarded is the end of that watermark's delivery
	checkCounting := func() {
		if cfg.counting == 0 {
			return
		}
		for _, ks := range keyOrder {
			if !crossed[ks] {
				continue
			}
			k := keys[ks]
			for _, want := range atCross[ks] {
				seen := false
				for _, st := range statesSeen[ks] {
					if st == want {
						seen = true
					}
				}
				if !seen {
					r.Violate("C17", "counting_missed", attrs, "key (%d,%s) reached a multiple of %d records during delivery %d; its result then was %s but the output for that key only ever held %v",
						k.a, Sec(k.kt), cfg.counting, delivery, want, statesSeen[ks])
				}
			}
		}
	}
	prevDelivery := -1
	metaSend := func(ctx execution.ProduceContext, msg execution.MetadataMessage) error {
		r.SinkLog("  out wm(%s)", Sec(msg.Watermark))
		nOut++
		firstRun = append(firstRun, "wm("+Sec(msg.Watermark)+")")
		if cfg.watermark {
			for _, ks := range keyOrder {
				k := keys[ks]
				if k.kt.After(msg.Watermark) {
					continue
				}
				if ok, d := keyMatches(ks); !ok {
					r.Violate("C17", "watermark_stale", attrs, "watermark %s forwarded but the output does not hold the current result of key (%d,%s): %s", Sec(msg.Watermark), k.a, Sec(k.kt), d)
				}
			}
		}
		checkCounting()
		prevDelivery = delivery
		return nil
	}
	_ = prevDelivery
	// counting requirements for record deliveries are checked when the next delivery starts
	origOnDeliver := src.OnDeliver
	src.OnDeliver = func(i int) {
		if delivery >= 0 && delivery < len(script) && script[delivery].Kind == MsgRec {
			checkCounting()
		}
		origOnDeliver(i)
	}
	origOnEOS := src.OnEOS
	src.OnEOS = func() {
		if delivery >= 0 && delivery < len(script) && script[delivery].Kind == MsgRec {
			checkCounting()
		}
		origOnEOS()
	}
	var err error
	func() {
		defer func() {
			if p := recover(); p != nil {
				err = fmt.Errorf("panic: %v", p)
			}
		}()
		err = node.Run(execution.ExecutionContext{Context: bubbleCtx()}, produce, metaSend)
	}()
	r.AddEvents(nOut)
	r.Log("run returned err=%v", err)
	if err != nil {
		r.Violate("C17", "run_error", attrs, "group by failed on a valid changelog: %v", err)
		return
	}
	// A materialised node may be run again (LOOKUP JOIN re-runs its joined side once per outer
	// record): a second run over the same input must emit exactly what the first did.
	if !r.Failed() {
		src.OnDeliver, src.OnEOS = nil, nil
		var secondRun []string
		var err2 error
		func() {
			defer func() {
				if p := recover(); p != nil {
					err2 = fmt.Errorf("panic: %v", p)
				}
			}()
			err2 = node.Run(execution.ExecutionContext{Context: bubbleCtx()},
				func(ctx execution.ProduceContext, rec execution.Record) error {
					secondRun = append(secondRun, Msg{Kind: MsgRec, Values: rec.Values, Retr: rec.Retraction, ET: rec.EventTime}.String())
					return nil
				},
				func(ctx execution.ProduceContext, msg execution.MetadataMessage) error {
					secondRun = append(secondRun, "wm("+Sec(msg.Watermark)+")")
					return nil
				})
		}()
		if err2 != nil || strings.Join(firstRun, " ") != strings.Join(secondRun, " ") {
			r.Violate("C17", "rerun_differs", attrs, "running the same group-by node a second time over the same input emits a different sequence (err=%v): first %v, second %v",
				err2, truncateList(firstRun, 12), truncateList(secondRun, 12))
		}
	}
	// end of stream: every key holds its final result
	for _, ks := range keyOrder {
		k := keys[ks]
		if ok, d := keyMatches(ks); !ok {
			r.Violate("C17", "end_of_stream_stale", attrs, "at end of stream the output does not hold the result of key (%d,%s): %s", k.a, Sec(k.kt), d)
		}
		if cfg.eos && cfg.counting == 0 && !cfg.watermark {
			// ON END OF STREAM alone: every remaining key exactly once, at the end
			_, nonEmpty := k.current()
			want := 0
			if nonEmpty {
				want = 1
			}
			if eosInserts[ks] != want {
				r.Violate("C17", "eos_once", attrs, "ON END OF STREAM emitted key (%d,%s) %d times at the end (expected %d)", k.a, Sec(k.kt), eosInserts[ks], want)
			}
		}
	}
}
