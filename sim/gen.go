package sim

import (
	"fmt"
	"strings"

	"github.com/cube2222/octosql/octosql"
)

// ChangelogCfg controls generation of a valid changelog (never retracting an
// absent row; with watermarks: truthful watermarks and no late record).
type ChangelogCfg struct {
	MaxSteps    int
	Watermarked bool
	Retractions bool
	Dups        bool                                          // allow re-inserting an already present row
	Row         func(t *Tape, i int, sec int) []octosql.Value // i-th fresh row; sec is its event time (0 in batch mode)
	FinalWM     bool                                          // allow a trailing watermark
	// RetractSameTime: a retraction carries exactly its insertion's event time, and is
	// therefore only generated while that time is still above the source's watermark
	// (rows whose time is a column: the retraction names the same row, hence the same time).
	RetractSameTime bool
	// ZeroTimeMix: in watermarked mode some records carry a zero event time (batch rows in a stream).
	ZeroTimeMix bool
	// FinalWMAlways: the script ends with a watermark above everything sent (everything buffered by event time is
	// then released before end of stream).
	FinalWMAlways bool
	// RetractWeight, WMWeight: relative weights of a retraction / a watermark as the next step (insertion: 5);
	// 0 = the default of 2.
	RetractWeight, WMWeight int
	// RepeatWM: a watermark message may repeat the current watermark (non-decreasing, not strictly increasing).
	RepeatWM bool
	// LateRecords: some insertions carry an event time at or below the last watermark sent
	// (late data). Only for properties that quantify over every input stream (C16); never
	// where "inputs without late records" is a premise (C18, C19, C22).
	LateRecords bool
}

// stepBlock is the tape window of one changelog step (the step's own draws plus those of the Row
// callback); callers reserve stepBlock*MaxSteps+10 slots for a script.
const stepBlock = 16

type presentRow struct {
	vals []octosql.Value
	sec  int
}

// GenChangelog draws a script. Event times are simulated seconds (see T()).
// Invariants by construction: every record's event time is above the last
// watermark sent before it; a retraction names a row present at that point and
// carries an event time not below its insertion's.
func GenChangelog(t *Tape, cfg ChangelogCfg) []Msg {
	var msgs []Msg
	var present []presentRow
	wm := 0
	fresh := 0
	outer := t
	for step := 0; step < cfg.MaxSteps; step++ {
		// one fixed-size block per step, so the shrinker can delete a step;
		// a zero first slot ends the script
		t := outer.Block(stepBlock)
		if t.Draw(cfg.MaxSteps+1) == 0 {
			break
		}
		wIns, wRet, wWM := 5, 0, 0
		var retractable []int
		if cfg.Retractions {
			for i := range present {
				if !cfg.RetractSameTime || !cfg.Watermarked || present[i].sec > wm || present[i].sec == 0 {
					retractable = append(retractable, i)
				}
			}
		}
		if len(retractable) > 0 {
			wRet = 2
			if cfg.RetractWeight > 0 {
				wRet = cfg.RetractWeight
			}
		}
		if cfg.Watermarked {
			wWM = 2
			if cfg.WMWeight > 0 {
				wWM = cfg.WMWeight
			}
		}
		switch t.Weighted(wIns, wRet, wWM) {
		case 0:
			sec := 0
			if cfg.Watermarked {
				sec = wm + 1 + t.Draw(4)
				if cfg.ZeroTimeMix && t.Chance(1, 6) {
					sec = 0
				}
				if cfg.LateRecords && wm > 0 && t.Chance(1, 6) {
					sec = 1 + t.Draw(wm)
				}
			}
			var vals []octosql.Value
			if cfg.Dups && len(present) > 0 && t.Chance(1, 5) {
				p := present[t.Draw(len(present))]
				vals = p.vals
				if cfg.RetractSameTime && cfg.Watermarked {
					// the time is part of the row: a duplicate has the same time, so it
					// is only possible while that time is not yet behind the watermark
					if p.sec > wm || p.sec == 0 {
						sec = p.sec
					} else {
						vals = cfg.Row(t, fresh, sec)
						fresh++
					}
				}
			} else {
				vals = cfg.Row(t, fresh, sec)
				fresh++
			}
			present = append(present, presentRow{vals, sec})
			msgs = append(msgs, Msg{Kind: MsgRec, Values: vals, ET: T(sec)})
		case 1:
			i := retractable[t.Draw(len(retractable))]
			p := present[i]
			present = append(present[:i:i], present[i+1:]...)
			sec := 0
			if cfg.Watermarked && p.sec != 0 {
				sec = p.sec
				if !cfg.RetractSameTime {
					if sec <= wm {
						sec = wm + 1
					}
					sec += t.Draw(2)
				}
			}
			msgs = append(msgs, Msg{Kind: MsgRec, Values: p.vals, Retr: true, ET: T(sec)})
		case 2:
			if cfg.RepeatWM && wm > 0 && t.Chance(1, 4) {
				// the same watermark again
			} else {
				wm += 1 + t.Draw(3)
			}
			msgs = append(msgs, Msg{Kind: MsgWM, ET: T(wm)})
		}
	}
	t = outer.Block(2)
	if cfg.Watermarked && cfg.FinalWM && (t.Chance(1, 3) || cfg.FinalWMAlways) {
		wm += 1 + t.Draw(6)
		msgs = append(msgs, Msg{Kind: MsgWM, ET: T(wm)})
	}
	return msgs
}

func ScriptString(msgs []Msg) string {
	parts := make([]string, len(msgs))
	for i, m := range msgs {
		parts[i] = m.String()
	}
	return strings.Join(parts, " ")
}

// scriptShape abstracts a script to its (kind, sign) sequence for the
// distinct-case measure.
func scriptShape(msgs []Msg) string {
	var b strings.Builder
	for _, m := range msgs {
		switch {
		case m.Kind == MsgWM:
			b.WriteByte('w')
		case m.Retr:
			b.WriteByte('-')
		default:
			b.WriteByte('+')
		}
	}
	return b.String()
}

func intv(i int) octosql.Value    { return octosql.NewInt(int64(i)) }
func strv(s string) octosql.Value { return octosql.NewString(s) }
func idv(prefix string, i int) octosql.Value {
	return octosql.NewString(fmt.Sprintf("%s%d", prefix, i))
}
