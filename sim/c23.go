package sim

import (
	"context"
	"encoding/json"
	"fmt"
	"os"
	"strings"

	csvds "github.com/cube2222/octosql/datasources/csv"
	jsonds "github.com/cube2222/octosql/datasources/json"
	linesds "github.com/cube2222/octosql/datasources/lines"
	"github.com/cube2222/octosql/execution"
	"github.com/cube2222/octosql/octosql"
	"github.com/cube2222/octosql/physical"
)

func init() {
	register("c23", func(r *Run) {
		switch r.Tape.Weighted(4, 3, 3) {
		case 0:
			jsonFileScenario(r)
		case 1:
			csvFileScenario(r)
		case 2:
			linesFileScenario(r)
		}
	})
}

func scratchFile(r *Run, ext string) string {
	return fmt.Sprintf("sim_%s.%s", r.Check, ext)
}

var funnyStrings = []string{"", "a", "héllo", "日本語", "q\"uote", "back\\slash", "new\nline", "tab\t", "emoji😀", "{\"not\":\"json\"}", " lead", "x,y", "'", " "}

func drawChunks(t *Tape) []int {
	n := t.Draw(4) // 0 = no restriction
	var out []int
	for i := 0; i < n; i++ {
		out = append(out, []int{1, 2, 3, 7, 16, 64, 100, 4096, 65536}[t.Draw(9)])
	}
	return out
}

func drawBufferSize(t *Tape) int {
	return []int{4096 * 1024, 16, 17, 64, 100, 4096, 65536}[t.Draw(7)]
}

// jsonFileScenario: real json.Creator + DatasourceExecuting inside the bubble
// with a per-run parser pool of 1..16 workers; reader and worker hand-offs are
// gated, so the tape decides the completion order of the parse batches and
// when the line reader reports EOF; reads are served in tape-chosen chunks.
// Oracle: one record per line, in file order, equal to an independent
// encoding/json decoding; Run returns nil.
func jsonFileScenario(r *Run) {
	t := r.Tape
	hdr := t.Block(24)
	sizes := []int{0, 1, 2, 63, 64, 65, 127, 128, 129, 200, 321, 640}
	if r.Thorough() {
		sizes = append(sizes, 1000, 4096, 8191, 8192, 8193, 64*129+1, 64*130)
	}
	nLines := sizes[hdr.Draw(len(sizes))]
	workers := 1 + hdr.Draw(16)
	bufSize := drawBufferSize(hdr)
	chunks := drawChunks(hdr)
	gateWorkers := true // every run is scheduled by the tape (an ungated run would not replay)
	_ = hdr.Chance(4, 5)
	gateReader := hdr.Chance(1, 2)
	sticky := []int{0, 50, 90}[hdr.Draw(3)]
	trailingNewline := !hdr.Chance(1, 5)
	attrs := map[string]string{"source": "json"}

	body := t.Block(64)
	var sb strings.Builder
	lines := make([]string, nLines)
	for i := 0; i < nLines; i++ {
		var lt *Tape
		if i < 8 {
			lt = body.Block(8)
		} else {
			lt = NewReplayTape([]uint32{uint32(i * 7), uint32(i * 13), uint32(i), uint32(i * 3), uint32(i * 5)})
		}
		obj := map[string]any{
			"id": float64(i),
			"s":  funnyStrings[lt.Draw(len(funnyStrings))] + fmt.Sprint(i%10),
			"b":  lt.Draw(2) == 0,
			"o":  map[string]any{"x": float64(lt.Draw(100)) / 4, "y": funnyStrings[lt.Draw(len(funnyStrings))] + "-"},
			"a":  []any{float64(lt.Draw(5)), float64(i % 3)},
		}
		// arrays with null elements, nested arrays, arrays of objects whose keys vary
		switch lt.Draw(4) {
		case 0:
			obj["l"] = []any{"c", nil, "d" + fmt.Sprint(i%7)}
		case 1:
			obj["l"] = []any{}
		case 2:
			obj["l"] = []any{nil}
		default:
			obj["l"] = []any{"x"}
		}
		if lt.Draw(2) == 0 {
			obj["oo"] = []any{map[string]any{"name": "gear"}, map[string]any{"name": "cog", "qty": float64(i % 5)}, map[string]any{"name": "pin", "qty": nil}}
		} else {
			obj["oo"] = []any{map[string]any{"name": "nut", "qty": float64(1)}}
		}
		obj["nn"] = []any{[]any{float64(4), nil}, []any{float64(i % 2)}}
		if lt.Draw(3) == 0 {
			obj["n"] = nil
		} else {
			obj["n"] = float64(i) + 0.5
		}
		data, _ := json.Marshal(obj)
		lines[i] = string(data)
		sb.Write(data)
		if i < nLines-1 || trailingNewline {
			sb.WriteByte('\n')
		}
	}
	path := scratchFile(r, "json")
	if err := os.WriteFile(path, []byte(sb.String()), 0644); err != nil {
		r.Infra("write file: %v", err)
		return
	}
	r.Log("json file: %d lines, workers=%d buffer=%d chunks=%v gateWorkers=%v gateReader=%v sticky=%d trailingNL=%v", nLines, workers, bufSize, chunks, gateWorkers, gateReader, sticky, trailingNewline)
	if nLines > 0 {
		r.Log("line0: %s", lines[0])
	}
	r.Shape("json", nLines, workers, bufSize, fmt.Sprint(chunks), gateWorkers, gateReader, trailingNewline)
	r.NonTrivial(nLines >= 2)

	ctl := NewCtl()
	disk := NewDisk(r, ctl)
	// open 0 = schema preview, open 1 = execution
	disk.Plan(path, 0, OpenPlan{Chunks: drawChunks(hdr), ErrAt: -1})
	disk.Plan(path, 1, OpenPlan{Chunks: chunks, ErrAt: -1})
	var sites []string
	if gateWorkers {
		// all hand-offs are gated (the JSON rule of the controller needs all of them); otherwise none:
		// the run is then scheduled by the Go runtime and only its result is checked
		sites = append(sites, "json.worker.send", "json.reader.submit", "json.reader.done", "json.consumer.loop")
	}
	_ = gateReader
	installSim(ctl, disk, sites...)
	defer installSim(nil, nil)
	simConfig.Files.BufferSizeBytes = bufSize
	defer func() { simConfig.Files.BufferSizeBytes = 4096 * 1024 }()

	ctx := bubbleCtx()
	impl, schema, err := jsonds.Creator(ctx, path, map[string]string{})
	if err != nil {
		if nLines == 0 {
			return
		}
		r.Violate("C23", "schema_error", attrs, "json schema preview failed on a well-formed file: %v", err)
		return
	}
	node, err := impl.Materialize(ctx, physical.Environment{}, schema, nil)
	if err != nil {
		r.Infra("materialize: %v", err)
		return
	}
	var got [][]octosql.Value
	produce := func(ctx execution.ProduceContext, rec execution.Record) error {
		got = append(got, rec.Values)
		return nil
	}
	var last string
	var schedule []string
	ctl.OnRelease = func(key string) {
		last = key[:strings.LastIndex(key, ":")]
		schedule = append(schedule, key)
	}
	choose := func(en []string) int {
		if last != "" && t.Draw(100) < sticky {
			for i := range en {
				if strings.HasPrefix(en[i], last) {
					return i
				}
			}
		}
		return t.Draw(len(en))
	}
	oc := RunGatedPool(r, node, workers, ctl, produce, func(execution.ProduceContext, execution.MetadataMessage) error { return nil }, choose, 100000)
	r.Sched(strings.Join(schedule, ","))
	if oc.Finished {
		r.AddEvents(len(got))
	}
	r.FaultN("short_read", disk.FiredCount("short_read"))
	r.FaultN("read_error", disk.FiredCount("read_error"))
	if gateWorkers && len(schedule) > 1 {
		r.Fault("worker_reordering_controlled")
	}
	if oc.Deadlock {
		r.Log("run did not return: deadlock")
		r.Violate("C23", "deadlock", attrs, "json source neither finished nor has any parked hand-off left (workers=%d, lines=%d)", workers, nLines)
		return
	}
	if !oc.Finished {
		r.Infra("step cap reached")
		return
	}
	r.Log("run returned err=%v records=%d", oc.Err, len(got))
	if oc.Err != nil {
		r.Violate("C23", "run_error", attrs, "json source failed on a well-formed file: %v", oc.Err)
		return
	}
	if len(got) != nLines {
		r.Violate("C23", "row_count", attrs, "file has %d lines, source produced %d records", nLines, len(got))
		return
	}
	names := make([]string, len(schema.Fields))
	for i, f := range schema.Fields {
		names[i] = f.Name
	}
	for i := range got {
		var want map[string]any
		if err := json.Unmarshal([]byte(lines[i]), &want); err != nil {
			r.Infra("generator produced invalid json: %v", err)
			return
		}
		for j, name := range names {
			if d := jsonValueDiff(got[i][j], want[name], schema.Fields[j].Type); d != "" {
				r.Violate("C23", "row_content", attrs, "record %d (of %d, workers=%d) column %s: %s; file line is %s", i, nLines, workers, name, d, lines[i])
				return
			}
		}
	}
}

// typeAlternative finds the alternative of t (possibly a union) with the given type id.
func typeAlternative(t octosql.Type, id octosql.TypeID) (octosql.Type, bool) {
	if t.TypeID == id {
		return t, true
	}
	if t.TypeID == octosql.TypeIDUnion {
		for _, alt := range t.Union.Alternatives {
			if alt.TypeID == id {
				return alt, true
			}
		}
	}
	return octosql.Type{}, false
}

// jsonValueDiff compares an octosql value with an independently decoded JSON value. The column's
// type is only used for the layout of objects (which field sits where; a key absent from the
// JSON object is NULL).
func jsonValueDiff(v octosql.Value, x any, t octosql.Type) string {
	switch xx := x.(type) {
	case nil:
		if v.TypeID != octosql.TypeIDNull {
			return fmt.Sprintf("got %s, file has null", ValString(v))
		}
	case float64:
		if v.TypeID != octosql.TypeIDFloat || v.Float != xx {
			return fmt.Sprintf("got %s, file has %v", ValString(v), xx)
		}
	case string:
		if v.TypeID != octosql.TypeIDString || v.Str != xx {
			return fmt.Sprintf("got %s, file has %q", ValString(v), xx)
		}
	case bool:
		if v.TypeID != octosql.TypeIDBoolean || v.Boolean != xx {
			return fmt.Sprintf("got %s, file has %v", ValString(v), xx)
		}
	case []any:
		if v.TypeID != octosql.TypeIDList || len(v.List) != len(xx) {
			return fmt.Sprintf("got %s, file has a list of %d", ValString(v), len(xx))
		}
		lt, ok := typeAlternative(t, octosql.TypeIDList)
		var et octosql.Type
		if ok && lt.List.Element != nil {
			et = *lt.List.Element
		}
		for i := range xx {
			if d := jsonValueDiff(v.List[i], xx[i], et); d != "" {
				return d
			}
		}
	case map[string]any:
		st, ok := typeAlternative(t, octosql.TypeIDStruct)
		if v.TypeID != octosql.TypeIDStruct || !ok || len(v.Struct) != len(st.Struct.Fields) {
			return fmt.Sprintf("got %s, file has an object %v", ValString(v), xx)
		}
		seen := 0
		for i, f := range st.Struct.Fields {
			fx, present := xx[f.Name]
			if present {
				seen++
			}
			if d := jsonValueDiff(v.Struct[i], fx, f.Type); d != "" {
				return f.Name + ": " + d
			}
		}
		if seen != len(xx) {
			return fmt.Sprintf("got %s, file object %v has keys the column type lacks", ValString(v), xx)
		}
	}
	return ""
}

type fileCreator func(ctx context.Context, name string, options map[string]string) (physical.DatasourceImplementation, physical.Schema, error)

// runFileSource runs a non-JSON file datasource sequentially through the simulated disk.
func runFileSource(r *Run, creator fileCreator, path string, options map[string]string, bufSize int, previewChunks, execChunks []int) ([][]octosql.Value, physical.Schema, error, error) {
	disk := NewDisk(r, nil)
	disk.Plan(path, 0, OpenPlan{Chunks: previewChunks, ErrAt: -1})
	disk.Plan(path, 1, OpenPlan{Chunks: execChunks, ErrAt: -1})
	installSim(nil, disk)
	defer installSim(nil, nil)
	simConfig.Files.BufferSizeBytes = bufSize
	defer func() { simConfig.Files.BufferSizeBytes = 4096 * 1024 }()
	defer func() {
		r.FaultN("short_read", disk.FiredCount("short_read"))
		r.FaultN("read_error", disk.FiredCount("read_error"))
	}()
	ctx := bubbleCtx()
	impl, schema, err := creator(ctx, path, options)
	if err != nil {
		return nil, schema, err, nil
	}
	node, err := impl.Materialize(ctx, physical.Environment{}, schema, nil)
	if err != nil {
		return nil, schema, err, nil
	}
	var got [][]octosql.Value
	var runErr error
	func() {
		defer func() {
			if p := recover(); p != nil {
				runErr = fmt.Errorf("panic: %v", p)
			}
		}()
		runErr = node.Run(execution.ExecutionContext{Context: ctx}, func(ctx execution.ProduceContext, rec execution.Record) error {
			got = append(got, rec.Values)
			return nil
		}, func(execution.ProduceContext, execution.MetadataMessage) error { return nil })
	}()
	return got, schema, nil, runErr
}

func csvQuote(s string, sep byte) string {
	if strings.ContainsAny(s, "\"\n\r"+string(sep)) || strings.HasPrefix(s, " ") || s == "" {
		return `"` + strings.ReplaceAll(s, `"`, `""`) + `"`
	}
	return s
}

func csvFileScenario(r *Run) {
	t := r.Tape
	hdr := t.Block(24)
	tsv := hdr.Chance(1, 3)
	sep := byte(',')
	ext := "csv"
	if tsv {
		sep, ext = '\t', "tsv"
	}
	maxRows := []int{0, 1, 2, 5, 20, 99, 100, 101, 150}
	if r.Thorough() {
		maxRows = append(maxRows, 1000, 5000)
	}
	nRows := maxRows[hdr.Draw(len(maxRows))]
	bufSize := drawBufferSize(hdr)
	execChunks := drawChunks(hdr)
	previewChunks := drawChunks(hdr)
	attrs := map[string]string{"source": ext}
	// header=>false: the first line is a row too, the columns are called column_0, column_1, ...
	noHeader := hdr.Chance(1, 4)
	body := t.Block(96)
	var sb strings.Builder
	if !noHeader {
		sb.WriteString("id" + string(sep) + "name" + string(sep) + "qty\n")
	} else {
		attrs["header"] = "false"
	}
	type row struct {
		id   int64
		name string
		qty  *int64
	}
	rows := make([]row, nRows)
	strs := []string{"s_plain", "s with space", "s,comma", "s\ttab", "s\"quote", "s\nnewline", "s_é", "s_日本", "s_😀", "s'"}
	for i := 0; i < nRows; i++ {
		var lt *Tape
		if i < 12 {
			lt = body.Block(8)
		} else {
			lt = NewReplayTape([]uint32{uint32(i * 7), uint32(i * 13), uint32(i)})
		}
		rw := row{id: int64(i) - 3, name: strs[lt.Draw(len(strs))] + fmt.Sprint(i)}
		if lt.Draw(4) != 0 {
			q := int64(lt.Draw(1000)) - 500
			rw.qty = &q
		}
		rows[i] = rw
		qty := ""
		if rw.qty != nil {
			qty = fmt.Sprint(*rw.qty)
		}
		sb.WriteString(fmt.Sprintf("%d%c%s%c%s\n", rw.id, sep, csvQuote(rw.name, sep), sep, qty))
	}
	path := scratchFile(r, ext)
	if err := os.WriteFile(path, []byte(sb.String()), 0644); err != nil {
		r.Infra("write file: %v", err)
		return
	}
	r.Log("%s file: %d rows, buffer=%d preview chunks=%v exec chunks=%v", ext, nRows, bufSize, previewChunks, execChunks)
	r.Shape(ext, nRows, bufSize, fmt.Sprint(previewChunks), fmt.Sprint(execChunks), noHeader)
	r.Sched(sb.String())
	r.NonTrivial(nRows >= 2)
	// either the datasource alone, or SELECT <some columns> through the planner with the optimiser on
	// (which prunes the datasource's schema to the columns the query uses)
	selections := [][]string{nil, {"name"}, {"qty", "id"}, {"name", "qty"}, {"qty"}, {"id", "name", "qty"}, {"name", "id"}}
	sel := selections[hdr.Draw(len(selections))]
	var got [][]octosql.Value
	var cerr, rerr error
	col := map[string]int{}
	if noHeader {
		var schema physical.Schema
		got, schema, cerr, rerr = runFileSource(r, csvds.Creator(rune(sep)), path, map[string]string{"header": "false"}, bufSize, previewChunks, execChunks)
		if cerr == nil && nRows > 0 {
			for i, want := range []string{"column_0", "column_1", "column_2"} {
				if i >= len(schema.Fields) || schema.Fields[i].Name != want {
					r.Violate("C23", "schema_error", attrs, "header=>false: column %d of the schema is not called %s: %v", i, want, schema.Fields)
					return
				}
			}
		}
		col = map[string]int{"id": 0, "name": 1, "qty": 2}
	} else if sel == nil {
		var schema physical.Schema
		got, schema, cerr, rerr = runFileSource(r, csvds.Creator(rune(sep)), path, map[string]string{}, bufSize, previewChunks, execChunks)
		for i, f := range schema.Fields {
			col[f.Name] = i
		}
	} else {
		for i, c := range sel {
			col[c] = i
		}
		sql := "SELECT t." + strings.Join(sel, ", t.") + " FROM " + path + " t"
		r.Log("sql: %s", sql)
		disk := NewDisk(r, nil)
		disk.Plan(path, 0, OpenPlan{Chunks: previewChunks, ErrAt: -1})
		disk.Plan(path, 1, OpenPlan{Chunks: execChunks, ErrAt: -1})
		installSim(nil, disk)
		simConfig.Files.BufferSizeBytes = bufSize
		planned, err := PlanSQL(bubbleCtx(), sql, map[string]*SimTable{}, true)
		if err != nil {
			cerr = err
		} else {
			func() {
				defer func() {
					if p := recover(); p != nil {
						rerr = fmt.Errorf("panic: %v", p)
					}
				}()
				rerr = planned.Node.Run(execution.ExecutionContext{Context: bubbleCtx()}, func(ctx execution.ProduceContext, rec execution.Record) error {
					got = append(got, rec.Values)
					return nil
				}, func(execution.ProduceContext, execution.MetadataMessage) error { return nil })
			}()
		}
		installSim(nil, nil)
		simConfig.Files.BufferSizeBytes = 4096 * 1024
		r.FaultN("short_read", disk.FiredCount("short_read"))
	}
	r.AddEvents(len(got))
	r.Log("creator err=%v run err=%v records=%d", cerr, rerr, len(got))
	if cerr != nil {
		if nRows == 0 && sel != nil {
			return // no row to infer column types from: the planner rejects the typed query
		}
		r.Violate("C23", "schema_error", attrs, "%s schema preview failed on a well-formed file: %v", ext, cerr)
		return
	}
	if rerr != nil {
		r.Violate("C23", "run_error", attrs, "%s source failed on a well-formed file: %v", ext, rerr)
		return
	}
	if len(got) != nRows {
		r.Violate("C23", "row_count", attrs, "file has %d rows, source produced %d records", nRows, len(got))
		return
	}
	for i, rw := range rows {
		g := got[i]
		bad := ""
		if c, ok := col["id"]; ok {
			if v := g[c]; v.TypeID != octosql.TypeIDInt || v.Int != rw.id {
				bad = fmt.Sprintf("id: got %s want %d", ValString(v), rw.id)
			}
		}
		if c, ok := col["name"]; ok {
			if v := g[c]; v.TypeID != octosql.TypeIDString || v.Str != rw.name {
				bad = fmt.Sprintf("name: got %s want %q", ValString(v), rw.name)
			}
		}
		if c, ok := col["qty"]; ok {
			v := g[c]
			if rw.qty == nil && v.TypeID != octosql.TypeIDNull {
				bad = fmt.Sprintf("qty: got %s want NULL", ValString(v))
			}
			if rw.qty != nil && (v.TypeID != octosql.TypeIDInt || v.Int != *rw.qty) {
				bad = fmt.Sprintf("qty: got %s want %d", ValString(v), *rw.qty)
			}
		}
		if bad != "" {
			r.Violate("C23", "row_content", attrs, "record %d of %d (selected columns %v): %s", i, nRows, sel, bad)
			return
		}
	}
}

func linesFileScenario(r *Run) {
	t := r.Tape
	hdr := t.Block(24)
	seps := []string{"\n", ";", "|", "ab", "::", "\r\n", "é", "--", "aa"}
	sep := seps[hdr.Draw(len(seps))]
	maxRows := []int{0, 1, 2, 3, 10, 50}
	if r.Thorough() {
		maxRows = append(maxRows, 500, 3000)
	}
	nRows := maxRows[hdr.Draw(len(maxRows))]
	bufSize := drawBufferSize(hdr)
	execChunks := drawChunks(hdr)
	terminated := hdr.Chance(1, 2)
	attrs := map[string]string{"source": "lines", "multibyte_sep": fmt.Sprint(len(sep) > 1)}
	body := t.Block(64)
	alphabet := []string{"x", "y", "a", "b", ":", "-", " ", "é", "日", "\t", "z1", ""}
	rows := make([]string, nRows)
	var sb strings.Builder
	for i := 0; i < nRows; i++ {
		var lt *Tape
		if i < 8 {
			lt = body.Block(8)
		} else {
			lt = NewReplayTape([]uint32{uint32(i * 7), uint32(i * 13), uint32(i), uint32(i * 3), uint32(i * 5), uint32(i * 11)})
		}
		n := lt.Draw(6)
		var row strings.Builder
		for j := 0; j < n; j++ {
			row.WriteString(alphabet[lt.Draw(len(alphabet))])
		}
		s := row.String()
		// a row must not contain the separator, nor combine with its neighbours into one
		s = strings.ReplaceAll(s, sep, "_")
		for _, c := range sep {
			s = strings.ReplaceAll(s, string(c), "_")
		}
		if sep == "\n" {
			s = strings.ReplaceAll(s, "\r", "_")
		}
		rows[i] = s
		sb.WriteString(s)
		if i < nRows-1 || terminated {
			sb.WriteString(sep)
		}
	}
	if !terminated && nRows > 0 && rows[nRows-1] == "" {
		// an unterminated empty last row does not exist in the file
		nRows--
		rows = rows[:nRows]
	}
	path := scratchFile(r, "lines")
	if err := os.WriteFile(path, []byte(sb.String()), 0644); err != nil {
		r.Infra("write file: %v", err)
		return
	}
	r.Log("lines file: sep=%q %d rows terminated=%v buffer=%d chunks=%v content=%q", sep, nRows, terminated, bufSize, execChunks, truncateStr(sb.String(), 120))
	r.Shape("lines", sep, nRows, terminated, bufSize, fmt.Sprint(execChunks))
	r.Sched(sb.String())
	r.NonTrivial(nRows >= 2)
	opts := map[string]string{}
	if sep != "\n" || hdr.Chance(1, 2) {
		opts["sep"] = sep
	}
	got, schema, cerr, rerr := runFileSource(r, linesds.Creator, path, opts, bufSize, nil, execChunks)
	r.AddEvents(len(got))
	r.Log("creator err=%v run err=%v records=%d", cerr, rerr, len(got))
	if cerr != nil {
		r.Violate("C23", "schema_error", attrs, "lines source could not be created: %v", cerr)
		return
	}
	if rerr != nil {
		r.Violate("C23", "run_error", attrs, "lines source failed on a well-formed file: %v", rerr)
		return
	}
	col := map[string]int{}
	for i, f := range schema.Fields {
		col[f.Name] = i
	}
	if len(got) != nRows {
		var texts []string
		for _, g := range got {
			texts = append(texts, g[col["text"]].Str)
		}
		r.Violate("C23", "row_count", attrs, "file has %d rows separated by %q, source produced %d records: %q (file: %q)", nRows, sep, len(got), truncateList(texts, 6), truncateStr(sb.String(), 80))
		return
	}
	for i := range rows {
		if v := got[i][col["text"]]; v.TypeID != octosql.TypeIDString || v.Str != rows[i] {
			r.Violate("C23", "row_content", attrs, "row %d: got %s, file has %q (separator %q)", i, ValString(v), rows[i], sep)
			return
		}
		if v := got[i][col["number"]]; v.TypeID != octosql.TypeIDInt || v.Int != int64(i) {
			r.Violate("C23", "row_content", attrs, "row %d: number column is %s", i, ValString(v))
			return
		}
	}
}

func truncateStr(s string, n int) string {
	if len(s) > n {
		return s[:n] + "..."
	}
	return s
}

func truncateList(l []string, n int) []string {
	if len(l) > n {
		return append(l[:n:n], "...")
	}
	return l
}
