package sim

import (
	"bufio"
	"encoding/json"
	"fmt"
	"os"
	"sort"
	"strconv"
	"strings"
	"sync/atomic"
	"testing"
	"time"
)

var exitCode = 0

func TestMain(m *testing.M) {
	// every worker process works in its own scratch directory, so that the
	// files a run writes have fixed, process-independent names
	if os.Getenv("VERIF_CHECK") != "" {
		dir, err := os.MkdirTemp(".", "proc")
		if err == nil {
			if err = os.Chdir(dir); err == nil {
				abs, _ := os.Getwd()
				defer os.RemoveAll(abs)
				c := m.Run()
				if c != 0 && exitCode == 0 {
					exitCode = 2
				}
				os.Chdir("..")
				os.RemoveAll(abs)
				os.Exit(exitCode)
			}
		}
		fmt.Fprintf(os.Stderr, "scratch dir: %v\n", err)
		os.Exit(2)
	}
	c := m.Run()
	if c != 0 && exitCode == 0 {
		exitCode = 2 // go test failure that is not a reported violation: infrastructure
	}
	os.Exit(exitCode)
}

type ReplayFile struct {
	Property  string            `json:"property"`
	Check     string            `json:"check"`
	Tier      string            `json:"tier"`
	Seed      int64             `json:"seed"`
	Run       int64             `json:"run"`
	Oracle    string            `json:"oracle"`
	Attrs     map[string]string `json:"attrs"`
	Detail    string            `json:"detail"`
	Known     string            `json:"known,omitempty"`
	TraceHash string            `json:"trace_hash"`
	Tape      []uint32          `json:"tape"`
	OrigLen   int               `json:"original_tape_len"`
	ShrinkN   int               `json:"shrink_attempts"`
	Trace     []string          `json:"trace"`
}

type ViolationSummary struct {
	Class    string            `json:"class"`
	Property string            `json:"property"`
	Oracle   string            `json:"oracle"`
	Attrs    map[string]string `json:"attrs"`
	Detail   string            `json:"detail"`
	Known    string            `json:"known,omitempty"`
	Count    int               `json:"count"`
	FirstRun int64             `json:"first_run"`
	Replay   string            `json:"replay"`
}

type Sample struct {
	Run   int64    `json:"run"`
	Trace []string `json:"trace"`
}

// exit code of a worker whose test function was aborted by the race detector
// after it had written its summary: the orchestrator restarts it behind the aborted run
const exitAbortedByRace = 3

// exit code of a worker that ended itself because one run made no progress in real time
const exitAbortedByHang = 4

func propertyOfCheck(check string) string {
	if len(check) >= 3 {
		return strings.ToUpper(check[:3])
	}
	return strings.ToUpper(check)
}

type WorkerSummary struct {
	AbortedAt  int64               `json:"aborted_at"` // -1, or the run during which the race detector ended the worker
	Check      string              `json:"check"`
	Tier       string              `json:"tier"`
	Seed       int64               `json:"seed"`
	From       int64               `json:"from"`
	To         int64               `json:"to"`
	Runs       int64               `json:"runs"`
	NonTrivial int64               `json:"nontrivial"`
	Events     int64               `json:"events"`
	SimTimeNs  int64               `json:"sim_time_ns"`
	Faults     map[string]int      `json:"faults"`
	Probes     map[string]int      `json:"probes"`
	Violations []*ViolationSummary `json:"violations"`
	Infra      []string            `json:"infra"`
	Samples    []Sample            `json:"samples"`
	WallS      float64             `json:"wall_s"`
	Race       bool                `json:"race"`
}

func envInt(name string, def int64) int64 {
	v := os.Getenv(name)
	if v == "" {
		return def
	}
	n, err := strconv.ParseInt(v, 10, 64)
	if err != nil {
		fmt.Fprintf(os.Stderr, "bad %s=%q\n", name, v)
		os.Exit(2)
	}
	return n
}

func TestSim(t *testing.T) {
	check := os.Getenv("VERIF_CHECK")
	if check == "" {
		t.Skip("VERIF_CHECK not set")
	}
	tier := os.Getenv("VERIF_TIER")
	if tier == "" {
		tier = "quick"
	}
	known := loadKnown(os.Getenv("VERIF_KNOWN"))
	if rp := os.Getenv("VERIF_REPLAY"); rp != "" {
		doReplay(t, rp, known)
		return
	}
	seed := envInt("VERIF_SEED", 1)
	from := envInt("VERIF_FROM", 0)
	to := envInt("VERIF_TO", 100)
	out := os.Getenv("VERIF_OUT")
	if out == "" {
		out = "/dev/null"
	}
	replayDir := os.Getenv("VERIF_REPLAY_DIR")
	maxWall := time.Duration(envInt("VERIF_MAX_WALL_S", 0)) * time.Second
	start := time.Now()

	sum := &WorkerSummary{Check: check, Tier: tier, Seed: seed, From: from, To: to,
		AbortedAt: -1, Faults: map[string]int{}, Probes: map[string]int{}, Race: raceBuild, Violations: []*ViolationSummary{}, Infra: []string{}, Samples: []Sample{}}
	classes := map[string]*ViolationSummary{}
	var hf *bufio.Writer
	if out != "/dev/null" {
		f, err := os.Create(out + ".hashes")
		if err != nil {
			t.Fatalf("create hashes: %v", err)
		}
		defer f.Close()
		hf = bufio.NewWriter(f)
		defer hf.Flush()
	}

	curRun := int64(-1)
	raceBefore := int64(0)
	finished := false
	writeSummary := func() {
		if !finished && inflight != nil && raceBuild {
			// the race detector ended the test function at the end of the racy run's bubble
			r := inflight
			report := raceLogTail(raceBefore)
			sum.AbortedAt = curRun
			sum.Runs++
			res := r.finish()
			if report != "" && !raceInHarness(report) {
				attrs := map[string]string{"kind": "data_race", "where": raceSite(report)}
				res.Verdict, res.Property, res.Oracle, res.Attrs = "violation", "C29", "data_race", attrs
				res.Detail = "the race detector reported a data race:\n" + truncateStr(report, 3000)
				res.Known = matchKnown(known, res)
				cl := classOf(res)
				vs := &ViolationSummary{Class: cl, Property: res.Property, Oracle: res.Oracle, Attrs: res.Attrs,
					Detail: res.Detail, Known: res.Known, Count: 1, FirstRun: curRun}
				if replayDir != "" && res.Known == "" {
					rf := ReplayFile{Property: res.Property, Check: check, Tier: tier, Seed: seed, Run: curRun,
						Oracle: res.Oracle, Attrs: res.Attrs, Detail: res.Detail, TraceHash: res.TraceHash, Tape: res.Tape,
						OrigLen: len(res.Tape), Trace: res.Trace}
					path := fmt.Sprintf("%s/%s-%s-s%d-r%d.json", replayDir, res.Property, check, seed, curRun)
					data, _ := json.MarshalIndent(rf, "", " ")
					if err := os.WriteFile(path, data, 0644); err == nil {
						vs.Replay = path
					}
				}
				sum.Violations = append(sum.Violations, vs)
			} else {
				sum.Infra = append(sum.Infra, fmt.Sprintf("run %d: test function aborted; race report: %s", curRun, truncateStr(report, 1500)))
			}
			exitCode = exitAbortedByRace
		}
		sum.WallS = time.Since(start).Seconds()
		sort.Slice(sum.Violations, func(i, j int) bool { return sum.Violations[i].FirstRun < sum.Violations[j].FirstRun })
		if hf != nil {
			hf.Flush()
		}
		data, _ := json.MarshalIndent(sum, "", " ")
		if out != "/dev/null" {
			if err := os.WriteFile(out+".summary.json", data, 0644); err != nil {
				fmt.Fprintf(os.Stderr, "write summary: %v\n", err)
			}
		} else {
			fmt.Println(string(data))
		}
	}
	defer writeSummary()

	// Real-time watchdog: the simulator only sees goroutines that block durably (channels, timers,
	// WaitGroups of the bubble). A goroutine of the system under test stuck on anything else (a mutex,
	// a spin) would hang synctest.Wait for good. The watchdog ends the worker, records the run as a
	// hang, and the orchestrator restarts the worker behind it.
	runTimeout := time.Duration(envInt("VERIF_RUN_TIMEOUT_S", 600)) * time.Second
	var runStartNs atomic.Int64
	stopWatch := make(chan struct{})
	defer close(stopWatch)
	go func() {
		tick := time.NewTicker(time.Second)
		defer tick.Stop()
		for {
			select {
			case <-stopWatch:
				return
			case <-tick.C:
				st := runStartNs.Load()
				if st == 0 || time.Since(time.Unix(0, st)) < runTimeout {
					continue
				}
				r := inflight
				res := &Result{Verdict: "violation", Property: propertyOfCheck(check), Oracle: "hang",
					Attrs:  map[string]string{"kind": "no_progress_in_real_time"},
					Detail: fmt.Sprintf("run %d made no progress for %v of real time: a goroutine of the system under test is stuck on something that is not a durable block (mutex, spin), or the run is unboundedly long", curRun, runTimeout)}
				if r != nil {
					r.mu.Lock() // the run is still going on (that is the point): its trace is being appended to
					res.Trace = append([]string{}, r.lines...)
					r.mu.Unlock()
					res.Tape = r.Tape.Recorded()
					res.Detail += "; last trace lines: " + strings.Join(truncateListTail(res.Trace, 6), " | ")
				}
				res.Known = matchKnown(known, res)
				vs := &ViolationSummary{Class: classOf(res), Property: res.Property, Oracle: res.Oracle, Attrs: res.Attrs,
					Detail: res.Detail, Known: res.Known, Count: 1, FirstRun: curRun}
				if replayDir != "" && res.Known == "" {
					rf := ReplayFile{Property: res.Property, Check: check, Tier: tier, Seed: seed, Run: curRun, Oracle: res.Oracle,
						Attrs: res.Attrs, Detail: res.Detail, TraceHash: "hang", Tape: nil, Trace: res.Trace}
					path := fmt.Sprintf("%s/%s-%s-s%d-r%d.json", replayDir, res.Property, check, seed, curRun)
					data, _ := json.MarshalIndent(rf, "", " ")
					if err := os.WriteFile(path, data, 0644); err == nil {
						vs.Replay = path
					}
				}
				sum.Violations = append(sum.Violations, vs)
				sum.AbortedAt = curRun
				sum.Runs++
				finished = true // the deferred writer must not treat this as a race abort
				writeSummary()
				os.Exit(exitAbortedByHang)
			}
		}
	}()

	var dump *bufio.Writer
	if dp := os.Getenv("VERIF_DUMP_HASHES"); dp != "" {
		f, err := os.Create(dp)
		if err != nil {
			t.Fatalf("create dump: %v", err)
		}
		defer f.Close()
		dump = bufio.NewWriter(f)
		defer dump.Flush()
	}
	for run := from; run < to; run++ {
		if maxWall > 0 && time.Since(start) > maxWall {
			sum.Infra = append(sum.Infra, fmt.Sprintf("watchdog: stopped at run %d after %v", run, time.Since(start)))
			break
		}
		curRun = run
		runStartNs.Store(time.Now().UnixNano())
		if out != "/dev/null" {
			// which run is in flight, should the process die (a panic in a goroutine of the system under test)
			os.WriteFile(out+".progress", []byte(strconv.FormatInt(run, 10)), 0644)
		}
		raceBefore = raceLogSize()
		rs := RunSeed(seed, check, run)
		keep := len(sum.Samples) < 3 && run-from < 3
		runStart := time.Now()
		res := execute(t, check, tier, NewGenTape(rs), keep)
		if slow := envInt("VERIF_SLOW_MS", 0); slow > 0 && time.Since(runStart) > time.Duration(slow)*time.Millisecond {
			first := ""
			if len(res.Trace) > 0 {
				first = res.Trace[0]
			}
			fmt.Fprintf(os.Stderr, "slow run %d: %v %s\n", run, time.Since(runStart), first)
		}
		sum.Runs++
		if dump != nil {
			fmt.Fprintf(dump, "%d %s %s %d\n", run, res.TraceHash, res.Verdict, len(res.Tape))
		}
		sum.Events += int64(res.Events)
		sum.SimTimeNs += res.SimTimeNs
		for k, v := range res.Faults {
			sum.Faults[k] += v
		}
		for k, v := range res.Probes {
			sum.Probes[k] += v
		}
		if res.NonTrivial {
			sum.NonTrivial++
			if hf != nil {
				fmt.Fprintf(hf, "%016x%016x\n", res.ShapeHash, res.SchedHash)
			}
		}
		if keep {
			sum.Samples = append(sum.Samples, Sample{Run: run, Trace: res.Trace})
		}
		switch res.Verdict {
		case "ok":
		case "infra":
			if len(sum.Infra) < 20 {
				sum.Infra = append(sum.Infra, fmt.Sprintf("run %d: %s", run, res.Detail))
			}
		case "violation":
			selectPrimary(known, res)
			cl := classOf(res)
			if vs, ok := classes[cl]; ok {
				vs.Count++
				continue
			}
			if res.Known != "" {
				// a listed finding: counted, not minimised or recorded again
				vs := &ViolationSummary{Class: cl, Property: res.Property, Oracle: res.Oracle, Attrs: res.Attrs,
					Detail: res.Detail, Known: res.Known, Count: 1, FirstRun: run}
				classes[cl] = vs
				sum.Violations = append(sum.Violations, vs)
				continue
			}
			if len(classes) >= 12 {
				continue
			}
			vs := &ViolationSummary{Class: cl, Property: res.Property, Oracle: res.Oracle, Attrs: res.Attrs,
				Detail: res.Detail, Known: res.Known, Count: 1, FirstRun: run}
			classes[cl] = vs
			sum.Violations = append(sum.Violations, vs)
			// minimise, then record
			orig := res.Tape
			attempts := 0
			still := func(c []uint32) ([]uint32, []BlockSpan, bool) {
				attempts++
				r2 := execute(t, check, tier, NewReplayTape(c), false)
				if r2.Verdict != "violation" {
					return nil, nil, false
				}
				selectPrimary(known, r2)
				return r2.Tape, r2.Blocks, classOf(r2) == cl
			}
			budget := 2000
			if tier == "thorough" {
				budget = 4000
			}
			if b := envInt("VERIF_SHRINK_BUDGET", 0); b > 0 {
				budget = int(b)
			}
			if res.Oracle == "data_race" {
				// the race detector reports each race once per process: it cannot be
				// re-observed in this process, so the tape is recorded unminimised
				// (the fresh-process replay re-observes it)
				budget = 0
			}
			min := orig
			if budget > 0 {
				min = Shrink(orig, res.Blocks, still, budget)
			}
			final := execute(t, check, tier, NewReplayTape(min), true)
			selectPrimary(known, final)
			if res.Oracle == "data_race" {
				// keep the original report; the re-execution only supplies the trace
				final.Verdict, final.Property, final.Oracle, final.Attrs, final.Detail, final.Known = "violation", res.Property, res.Oracle, res.Attrs, res.Detail, res.Known
			}
			if final.Verdict != "violation" || classOf(final) != cl {
				// shrinking went wrong: fall back to the original tape
				final = execute(t, check, tier, NewReplayTape(orig), true)
				selectPrimary(known, final)
				if final.Verdict != "violation" {
					sum.Infra = append(sum.Infra, fmt.Sprintf("run %d: violation did not reproduce from its own tape (nondeterminism)", run))
					continue
				}
			}
			vs.Detail = final.Detail
			if replayDir != "" {
				rf := ReplayFile{Property: final.Property, Check: check, Tier: tier, Seed: seed, Run: run,
					Oracle: final.Oracle, Attrs: final.Attrs, Detail: final.Detail, Known: final.Known,
					TraceHash: final.TraceHash, Tape: final.Tape, OrigLen: len(orig), ShrinkN: attempts, Trace: final.Trace}
				path := fmt.Sprintf("%s/%s-%s-s%d-r%d.json", replayDir, final.Property, check, seed, run)
				data, _ := json.MarshalIndent(rf, "", " ")
				if err := os.WriteFile(path, data, 0644); err != nil {
					t.Fatalf("write replay: %v", err)
				}
				vs.Replay = path
			}
		}
	}
	runStartNs.Store(0)
	finished = true
}

func truncateListTail(l []string, n int) []string {
	if len(l) > n {
		return l[len(l)-n:]
	}
	return l
}

func doReplay(t *testing.T, path string, known []KnownFinding) {
	data, err := os.ReadFile(path)
	if err != nil {
		fmt.Fprintf(os.Stderr, "read replay: %v\n", err)
		exitCode = 2
		return
	}
	var rf ReplayFile
	if err := json.Unmarshal(data, &rf); err != nil {
		fmt.Fprintf(os.Stderr, "parse replay: %v\n", err)
		exitCode = 2
		return
	}
	raceBefore := raceLogSize()
	completed := false
	var tape *Tape
	if rf.Tape == nil && (rf.Oracle == "hang" || rf.Oracle == "crash") {
		// recorded without a tape (the run never ended): regenerate it from the seed
		tape = NewGenTape(RunSeed(rf.Seed, rf.Check, rf.Run))
	} else {
		tape = NewReplayTape(rf.Tape)
	}
	if rf.Oracle == "hang" {
		go func() {
			time.Sleep(time.Duration(envInt("VERIF_RUN_TIMEOUT_S", 600)) * time.Second)
			fmt.Printf("REPLAY verdict=violation oracle=hang trace_hash=hang identical=true\n")
			fmt.Printf("VIOLATION property=%s replay=%s\n", rf.Property, path)
			os.Exit(1)
		}()
	}
	defer func() {
		// a race build's test function is ended by the race detector right after the racy bubble
		if completed || inflight == nil || !raceBuild {
			return
		}
		res := inflight.finish()
		report := raceLogTail(raceBefore)
		for _, l := range res.Trace {
			fmt.Println("  " + l)
		}
		if report != "" && !raceInHarness(report) {
			same := rf.Oracle == "data_race" && res.TraceHash == rf.TraceHash
			fmt.Printf("%s\nREPLAY verdict=violation oracle=data_race trace_hash=%s identical=%v\n", truncateStr(report, 3000), res.TraceHash, same)
			fmt.Printf("VIOLATION property=C29 replay=%s\n", path)
			exitCode = 1
		} else {
			fmt.Printf("REPLAY verdict=infra test function aborted: %s\n", truncateStr(report, 1500))
			exitCode = 2
		}
	}()
	res := execute(t, rf.Check, rf.Tier, tape, true)
	completed = true
	for _, l := range res.Trace {
		fmt.Println("  " + l)
	}
	switch res.Verdict {
	case "violation":
		selectPrimary(known, res)
		same := res.Oracle == rf.Oracle && res.TraceHash == rf.TraceHash
		fmt.Printf("REPLAY verdict=violation oracle=%s trace_hash=%s identical=%v\n", res.Oracle, res.TraceHash, same)
		fmt.Printf("VIOLATION property=%s replay=%s\n", res.Property, path)
		exitCode = 1
	case "infra":
		fmt.Printf("REPLAY verdict=infra %s\n", res.Detail)
		exitCode = 2
	default:
		fmt.Printf("REPLAY verdict=ok trace_hash=%s (recorded %s)\n", res.TraceHash, rf.TraceHash)
	}
}
