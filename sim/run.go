package sim

import (
	"encoding/json"
	"fmt"
	"hash/fnv"
	"os"
	"sort"
	"strings"
	"sync"
	"testing"
)

// Result of one simulated run.
type Result struct {
	Verdict    string            `json:"verdict"` // ok | violation | infra
	Property   string            `json:"property,omitempty"`
	Oracle     string            `json:"oracle,omitempty"`
	Attrs      map[string]string `json:"attrs,omitempty"`
	Detail     string            `json:"detail,omitempty"`
	Known      string            `json:"known,omitempty"` // id of the matching known finding, if any
	ShapeHash  uint64            `json:"-"`
	SchedHash  uint64            `json:"-"`
	NonTrivial bool              `json:"-"`
	Events     int               `json:"events"`
	SimTimeNs  int64             `json:"sim_time_ns"`
	Faults     map[string]int    `json:"faults,omitempty"`
	Probes     map[string]int    `json:"probes,omitempty"`
	TraceHash  string            `json:"trace_hash"`
	Trace      []string          `json:"trace,omitempty"`
	Tape       []uint32          `json:"tape,omitempty"`
	Blocks     []BlockSpan       `json:"-"`
	// All violations raised in the run, in order (capped). The reported one is the
	// first that matches no known finding, so a known finding cannot mask another
	// violation that happens later in the same run.
	All []VInfo `json:"-"`
}

type VInfo struct {
	Property, Oracle string
	Attrs            map[string]string
	Detail           string
}

// selectPrimary picks the violation the run is classified by.
func selectPrimary(known []KnownFinding, res *Result) {
	if res.Verdict != "violation" || len(res.All) == 0 {
		return
	}
	pick := -1
	for i, v := range res.All {
		tmp := Result{Property: v.Property, Oracle: v.Oracle, Attrs: v.Attrs}
		if matchKnown(known, &tmp) == "" {
			pick = i
			break
		}
	}
	if pick < 0 {
		pick = 0
	}
	v := res.All[pick]
	res.Property, res.Oracle, res.Attrs, res.Detail = v.Property, v.Oracle, v.Attrs, v.Detail
	res.Known = matchKnown(known, res)
}

// Run is the per-run context handed to a check.
type Run struct {
	T     *testing.T
	Tape  *Tape
	Tier  string
	Keep  bool
	Check string
	// OnlyProperty, when set, makes the run report violations of that property
	// only (C29 re-runs other properties' workloads under the race detector);
	// deadlocks and hangs found by any scenario count as that property's.
	OnlyProperty string
	mu           sync.Mutex // sink callbacks run on goroutines of the system under test
	res          Result
	th           uint64
	lines        []string
}

func newRun(t *testing.T, check, tier string, tape *Tape, keep bool) *Run {
	return &Run{T: t, Tape: tape, Tier: tier, Keep: keep, Check: check, th: 1469598103934665603,
		res: Result{Verdict: "ok", Faults: map[string]int{}, Probes: map[string]int{}}}
}

func (r *Run) Thorough() bool { return r.Tier == "thorough" }

// Log appends a line to the run's trace. The trace hash always covers it; the
// text is kept only when the run is being recorded (samples, violations).
func (r *Run) Log(format string, args ...any) {
	r.mu.Lock()
	defer r.mu.Unlock()
	r.logLocked(format, args...)
}

func (r *Run) logLocked(format string, args ...any) {
	s := format
	if len(args) > 0 {
		s = fmt.Sprintf(format, args...)
	}
	for i := 0; i < len(s); i++ {
		r.th ^= uint64(s[i])
		r.th *= 1099511628211
	}
	r.th ^= 0xff
	r.th *= 1099511628211
	if r.Keep {
		r.lines = append(r.lines, s)
	}
}

// Violate records the first violation of the run.
func (r *Run) Violate(property, oracle string, attrs map[string]string, format string, args ...any) {
	r.mu.Lock()
	defer r.mu.Unlock()
	if r.OnlyProperty != "" && property != r.OnlyProperty {
		if oracle != "deadlock" && oracle != "hang" {
			r.logLocked("(ignored here: %s %s)", property, oracle)
			return
		}
		attrs = cloneAttrs(attrs)
		attrs["found_by"] = property
		property = r.OnlyProperty
	}
	r.logLocked("VIOLATION %s %s %v: "+format, append([]any{property, oracle, attrsString(attrs)}, args...)...)
	if r.res.Verdict == "infra" {
		return
	}
	if len(r.res.All) < 16 {
		r.res.All = append(r.res.All, VInfo{property, oracle, attrs, fmt.Sprintf(format, args...)})
	}
	if r.res.Verdict != "ok" {
		return
	}
	r.res.Verdict = "violation"
	r.res.Property = property
	r.res.Oracle = oracle
	r.res.Attrs = attrs
	r.res.Detail = fmt.Sprintf(format, args...)
}

func (r *Run) Failed() bool {
	r.mu.Lock()
	defer r.mu.Unlock()
	return r.res.Verdict != "ok"
}

// Infra records a harness problem (never a violation).
func (r *Run) Infra(format string, args ...any) {
	r.mu.Lock()
	defer r.mu.Unlock()
	r.logLocked("INFRA: "+format, args...)
	if r.res.Verdict == "infra" {
		return
	}
	r.res.Verdict = "infra"
	r.res.Detail = fmt.Sprintf(format, args...)
}

func (r *Run) Fault(kind string) {
	r.mu.Lock()
	r.res.Faults[kind]++
	r.mu.Unlock()
}
func (r *Run) FaultN(kind string, n int) {
	if n <= 0 {
		return
	}
	r.mu.Lock()
	r.res.Faults[kind] += n
	r.mu.Unlock()
}

// SinkLog is Log for sink callbacks, which run on goroutines of the system
// under test. In race builds it does nothing: taking the trace mutex there
// would order the query's goroutine after the controller and could hide races.
func (r *Run) SinkLog(format string, args ...any) {
	if raceBuild {
		return
	}
	r.Log(format, args...)
}

func (r *Run) Probe(name string) {
	r.mu.Lock()
	r.res.Probes[name]++
	r.mu.Unlock()
}
func (r *Run) Shape(parts ...any) {
	r.res.ShapeHash = hashOf(r.res.ShapeHash, parts...)
}
func (r *Run) Sched(parts ...any) {
	r.res.SchedHash = hashOf(r.res.SchedHash, parts...)
}
func (r *Run) NonTrivial(b bool)   { r.res.NonTrivial = b }
func (r *Run) AddEvents(n int)     { r.res.Events += n }
func (r *Run) AddSimTime(ns int64) { r.res.SimTimeNs += ns }
func (r *Run) Result() *Result     { return &r.res }
func attrsString(a map[string]string) string {
	keys := make([]string, 0, len(a))
	for k := range a {
		keys = append(keys, k)
	}
	sort.Strings(keys)
	parts := make([]string, len(keys))
	for i, k := range keys {
		parts[i] = k + "=" + a[k]
	}
	return "{" + strings.Join(parts, ",") + "}"
}

func hashOf(seed uint64, parts ...any) uint64 {
	h := fnv.New64a()
	fmt.Fprintf(h, "%d|", seed)
	for _, p := range parts {
		fmt.Fprintf(h, "%v|", p)
	}
	return h.Sum64()
}

func (r *Run) finish() *Result {
	if n, at := r.Tape.Overflow(); n > 0 && r.res.Verdict == "ok" {
		r.Infra("harness: %d draws from an exhausted tape block (first at %s): the block is sized too small", n, at)
	}
	r.res.TraceHash = fmt.Sprintf("%016x", r.th)
	r.res.Trace = r.lines
	r.res.Tape = r.Tape.Recorded()
	r.res.Blocks = r.Tape.Blocks()
	return &r.res
}

// CheckFn is a simulated check: it builds a scenario from the tape, runs the
// system under test and evaluates the oracles.
type CheckFn func(r *Run)

var checks = map[string]CheckFn{}

func register(name string, fn CheckFn) { checks[name] = fn }

// execute runs one check once, converting harness panics into infra results.
// inflight is the run being executed (the race detector aborts the test function
// at the end of the bubble in which it saw a race; the worker's deferred summary
// writer then needs the tape and trace of that run).
var inflight *Run

func execute(t *testing.T, check, tier string, tape *Tape, keep bool) (res *Result) {
	fn, ok := checks[check]
	if !ok {
		fmt.Fprintf(os.Stderr, "unknown check %q\n", check)
		os.Exit(2)
	}
	r := newRun(t, check, tier, tape, keep || raceBuild)
	inflight = r
	defer func() {
		if p := recover(); p != nil {
			r.Infra("harness panic: %v", p)
			res = r.finish()
			inflight = nil
		}
	}()
	fn(r)
	inflight = nil
	return r.finish()
}

// ---- known findings ----

type KnownFinding struct {
	ID       string            `json:"id"`
	Status   string            `json:"status"` // open | fixed
	Property string            `json:"property"`
	Oracle   string            `json:"oracle"`
	Attrs    map[string]string `json:"attrs"`
	What     string            `json:"what"`
	Commit   string            `json:"commit,omitempty"`
}

func loadKnown(path string) []KnownFinding {
	var out []KnownFinding
	data, err := os.ReadFile(path)
	if err != nil {
		return nil
	}
	for _, line := range strings.Split(string(data), "\n") {
		line = strings.TrimSpace(line)
		if line == "" || strings.HasPrefix(line, "#") || strings.HasPrefix(line, "fixed:") {
			continue
		}
		var k KnownFinding
		if err := json.Unmarshal([]byte(line), &k); err != nil {
			fmt.Fprintf(os.Stderr, "bad known_findings line: %v\n", err)
			os.Exit(2)
		}
		out = append(out, k)
	}
	return out
}

func matchKnown(known []KnownFinding, res *Result) string {
	for _, k := range known {
		if k.Status != "open" || k.Property != res.Property || k.Oracle != res.Oracle {
			continue
		}
		ok := true
		for a, v := range k.Attrs {
			if res.Attrs[a] != v {
				ok = false
				break
			}
		}
		if ok {
			return k.ID
		}
	}
	return ""
}

func classOf(res *Result) string {
	return res.Property + "|" + res.Oracle + "|" + attrsString(res.Attrs) + "|" + res.Known
}
