package sim

import (
	"fmt"
	"strings"
	"time"

	"github.com/cube2222/octosql/execution"
	"github.com/cube2222/octosql/octosql"
)

// Base of generated event times. Simulated seconds are offsets from it.
var epoch = time.Unix(1_000_000_000, 0).UTC()

func T(sec int) time.Time {
	if sec == 0 {
		return time.Time{}
	}
	return epoch.Add(time.Duration(sec) * time.Second)
}

// Sec is the inverse of T for trace output (zero time -> 0).
func Sec(t time.Time) string {
	if t.IsZero() {
		return "0"
	}
	if t.Equal(execution.WatermarkMaxValue) {
		return "max"
	}
	d := t.Sub(epoch)
	if d%time.Second == 0 {
		return fmt.Sprintf("%d", int64(d/time.Second))
	}
	return fmt.Sprintf("%.3f", d.Seconds())
}

type MsgKind int

const (
	MsgRec MsgKind = iota
	MsgWM
)

// Msg is one message of a scripted source.
type Msg struct {
	Kind   MsgKind
	Values []octosql.Value
	Retr   bool
	ET     time.Time // event time of a record, or watermark value
}

func (m Msg) String() string {
	if m.Kind == MsgWM {
		return "wm(" + Sec(m.ET) + ")"
	}
	sign := "+"
	if m.Retr {
		sign = "-"
	}
	return sign + RowString(m.Values) + "@" + Sec(m.ET)
}

func RowString(vs []octosql.Value) string {
	parts := make([]string, len(vs))
	for i := range vs {
		parts[i] = ValString(vs[i])
	}
	return "[" + strings.Join(parts, ",") + "]"
}

func ValString(v octosql.Value) string {
	switch v.TypeID {
	case octosql.TypeIDNull:
		return "NULL"
	case octosql.TypeIDInt:
		return fmt.Sprintf("%d", v.Int)
	case octosql.TypeIDFloat:
		return fmt.Sprintf("%gf", v.Float)
	case octosql.TypeIDBoolean:
		return fmt.Sprintf("%v", v.Boolean)
	case octosql.TypeIDString:
		return fmt.Sprintf("%q", v.Str)
	case octosql.TypeIDTime:
		return "t" + Sec(v.Time)
	case octosql.TypeIDDuration:
		return v.Duration.String()
	case octosql.TypeIDList:
		return "L" + RowString(v.List)
	case octosql.TypeIDStruct:
		return "S" + RowString(v.Struct)
	case octosql.TypeIDTuple:
		return "T" + RowString(v.Tuple)
	}
	return fmt.Sprintf("?%d", int(v.TypeID))
}

// ScriptSource is a simulator-owned execution.Node: it delivers a script of
// records and watermarks. With a controller it parks on gate "<Name>:<i>"
// before message i and on "<Name>:eos" before returning, so the controller
// decides the interleaving of several sources message by message.
type ScriptSource struct {
	Name      string
	Msgs      []Msg
	Ctl       *Ctl
	FinalErr  error           // returned instead of nil after the last message
	OnDeliver func(i int)     // called just before message i is handed over
	OnEOS     func()          // called just before Run returns
	Stall     []time.Duration // optional simulated latency before message i (fake clock)
	GateEvery int             // with a controller: park only before every GateEvery-th message (0/1 = every message)
}

var errAborted = fmt.Errorf("sim: run aborted")

func (s *ScriptSource) Run(ctx execution.ExecutionContext, produce execution.ProduceFn, metaSend execution.MetaSendFn) error {
	pctx := execution.ProduceFromExecutionContext(ctx)
	for i, m := range s.Msgs {
		if s.Ctl != nil && (s.GateEvery <= 1 || i%s.GateEvery == 0) {
			if !s.Ctl.Park(fmt.Sprintf("%s:%03d", s.Name, i)) {
				return errAborted
			}
		}
		if i < len(s.Stall) && s.Stall[i] > 0 {
			time.Sleep(s.Stall[i])
		}
		if s.OnDeliver != nil {
			s.OnDeliver(i)
		}
		switch m.Kind {
		case MsgRec:
			vals := make([]octosql.Value, len(m.Values))
			copy(vals, m.Values)
			if err := produce(pctx, execution.NewRecord(vals, m.Retr, m.ET)); err != nil {
				return err
			}
		case MsgWM:
			if err := metaSend(pctx, execution.MetadataMessage{Type: execution.MetadataMessageTypeWatermark, Watermark: m.ET}); err != nil {
				return err
			}
		}
	}
	if s.Ctl != nil {
		if !s.Ctl.Park(s.Name + ":eos") {
			return errAborted
		}
	}
	if s.OnEOS != nil {
		s.OnEOS()
	}
	return s.FinalErr
}
