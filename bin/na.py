NOT_APPLICABLE = {
 "C01": "Result of a single-source query is a pure function of (query, table); no schedule, clock, crash or fault in the statement. The only scheduling underneath (JSON parser pool) is decided under C23.",
 "C03": "Batch GROUP BY result is a pure function of (query, table); its history/trigger side is decided under C14/C16.",
 "C04": "Optimised vs unoptimised plan equivalence compares two deterministic evaluations of one input; nothing for a simulator to schedule or fault.",
 "C07": "'No panic for any query/input' quantifies over inputs only; input generation is fuzzing, not simulation.",
 "C08": "Static type soundness relates values to planned types per input; pure.",
 "C09": "Compare/Hash laws over values are algebraic and stateless.",
 "C10": "Type algebra laws are algebraic and stateless.",
 "C11": "Three-valued logic truth tables are stateless.",
 "C12": "String/pattern functions are stateless (the shared regexp cache's concurrency is decided under C29).",
 "C13": "Numeric/time/conversion functions are stateless.",
 "C24": "Inferred schema vs produced values is a function of file content only.",
 "C25": "JSON/CSV output encoding is a function of the row only.",
 "C26": "Wire round-trip and predicate equivalence are pure functions; the live plugin path (exec + unix sockets, Lstat busy-wait) has no seam and the statement has no fault/schedule clause. The real gRPC path is exercised, not decided, by C27's recovery queries.",
 "C28": "Discovery/version resolution is a function of (directory tree, config, manifest); the trees reachable by crashes are decided under C27.",
 "C30": "Parser/printer round-trip is a function of the statement text only."
}

PENDING = {
 "C02": "check under construction in this session (designed in DESIGN.md section 5); not yet claimed",
 "C06": "check under construction in this session (designed in DESIGN.md section 5); not yet claimed",
 "C14": "check under construction in this session (designed in DESIGN.md section 5); not yet claimed",
 "C15": "check under construction in this session (designed in DESIGN.md section 5); not yet claimed",
 "C16": "check under construction in this session (designed in DESIGN.md section 5); not yet claimed",
 "C17": "check under construction in this session (designed in DESIGN.md section 5); not yet claimed",
 "C18": "check under construction in this session (designed in DESIGN.md section 5); not yet claimed",
 "C19": "check under construction in this session (designed in DESIGN.md section 5); not yet claimed",
 "C20": "check under construction in this session (designed in DESIGN.md section 5); not yet claimed",
 "C21": "check under construction in this session (designed in DESIGN.md section 5); not yet claimed",
 "C22": "check under construction in this session (designed in DESIGN.md section 5); not yet claimed",
 "C23": "check under construction in this session (designed in DESIGN.md section 5); not yet claimed",
 "C27": "check under construction in this session (designed in DESIGN.md section 5); not yet claimed",
 "C29": "check under construction in this session (designed in DESIGN.md section 5); not yet claimed"
}
