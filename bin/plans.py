"""Per-property simulation plans: which simulated checks run, how many runs per tier."""

ENGINE_REAL = ["execution nodes (real code from /repo)", "google/btree, tidwall/btree"]

PLANS = {
    "C19": {
        "level": "exploration",
        "technique": "deterministic simulation: seeded schedule search over two gated join inputs (synctest quiescence), reference-join oracle at every watermark and at end of stream",
        "level_text": ("seeded exploration of input changelogs x complete message interleavings (incl. which input closes first) of the real "
                       "StreamJoin/OuterJoin against a reference join, checked at every emitted watermark and at end of stream; sampling, not enumeration: "
                       "a clean batch is evidence, not proof"),
        "level_note": "trusted: reference join model, synctest quiescence on the go1.26.8 runtime, generated inputs are valid changelogs without late records",
        "parts": [{"check": "c19", "quick": 64000, "thorough": 4000000}],
        "rule": ("each run draws from its tape: join kind (inner/left/right/full), 0-2 key columns, per side a valid "
                 "changelog (watermarked or batch, retractions, duplicates) and the full message-by-message interleaving "
                 "of the two sources including which closes first; a run is non-trivial if the two scripts hold >=2 "
                 "messages and >=3 scheduling decisions were made; distinct = distinct (scenario-shape hash, schedule hash) pairs, "
                 "shape = join kind, keys, per-side watermark mode and the +/-/w pattern of both scripts; schedule = the L/R/close sequence"),
        "components": {"real": ["nodes.StreamJoin", "nodes.OuterJoin", "execution.RecordEventTimeBuffer", "execution.Variable"],
                       "stub": ["both join inputs (scripted, gated sources)", "sink (collecting)"]},
        "assumptions": ["reference nested-loop join model in /verif/sim/model.go", "testing/synctest quiescence (go1.26.8 runtime)",
                        "inputs are valid changelogs with truthful watermarks and no late records"],
    },
    "C02": {
        "level": "exploration",
        "technique": "deterministic simulation: SQL -> real planner/optimiser/join nodes over gated simulator tables, seeded interleaving incl. which input finishes first, nested-loop SQL join oracle (NULL never equal)",
        "level_text": ("seeded exploration of generated join queries (inner/left/right/full/lookup, 1-3 key columns, theta and WHERE conjuncts, nested third table, optimiser on/off) x "
                       "generated tables with NULL and duplicate keys x input interleavings; final consolidated output compared with a reference SQL join"),
        "level_note": "trusted: reference nested-loop join with three-valued key equality, synctest quiescence; LOOKUP JOIN has no schedule dimension (sequential) and is counted separately in probes",
        "parts": [{"check": "c02", "quick": 40000, "thorough": 2500000}],
        "rule": ("each run draws a join query shape, 2-3 tables (0..N rows, keys from {1,2,3,NULL}, duplicates likely) and the message interleaving of the table sources; "
                 "non-trivial = at least 2 input rows in total; distinct = distinct (query-shape hash, tables+schedule hash) pairs"),
        "components": {"real": ["sqlparser", "parser", "logical typecheck", "optimizer", "physical.Materialize", "nodes.StreamJoin/OuterJoin/LookupJoin/Filter/Map", "functions (=, <, >=, AND)"],
                       "stub": ["table sources (sim database, scripted and gated)", "sink (collecting)", "cobra command, config file, printers (not run)"]},
        "assumptions": ["reference nested-loop SQL join in /verif/sim/model.go", "testing/synctest quiescence (go1.26.8 runtime)"],
    },
}
