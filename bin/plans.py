"""Per-property simulation plans: which simulated checks run, how many runs per tier."""

ENGINE_REAL = ["execution nodes (real code from /repo)", "google/btree, tidwall/btree"]

PLANS = {
    "C19": {
        "level": "exploration",
        "technique": "deterministic simulation: seeded schedule search over two gated join inputs (synctest quiescence), reference-join oracle at every watermark and at end of stream",
        "level_text": ("seeded exploration of input changelogs x complete message interleavings (incl. which input closes first) of the real "
                       "StreamJoin/OuterJoin against a reference join, checked at every emitted watermark and at end of stream; sampling, not enumeration: "
                       "a clean batch is evidence, not proof"),
        "level_note": "trusted: reference join model, synctest quiescence on the go1.26.8 runtime, generated inputs are valid changelogs without late records",
        "parts": [{"check": "c19", "quick": 64000, "thorough": 2000000}],
        "rule": ("each run draws from its tape: join kind (inner/left/right/full), 0-2 key columns, per side a valid "
                 "changelog (watermarked or batch, retractions, duplicates, keys from {1..3, NULL}) and the full message-by-message interleaving "
                 "of the two sources including which closes first; a run is non-trivial if the two scripts hold >=2 "
                 "messages and >=3 scheduling decisions were made; distinct = distinct (scenario-shape hash, schedule hash) pairs, "
                 "shape = join kind, keys, per-side watermark mode and the +/-/w pattern of both scripts; schedule = the L/R/close sequence"),
        "components": {"real": ["nodes.StreamJoin", "nodes.OuterJoin", "execution.RecordEventTimeBuffer", "execution.Variable"],
                       "stub": ["both join inputs (scripted, gated sources)", "sink (collecting)"]},
        "assumptions": ["reference nested-loop join model in /verif/sim/model.go", "testing/synctest quiescence (go1.26.8 runtime)",
                        "inputs are valid changelogs with truthful watermarks and no late records"],
    },
    "C02": {
        "level": "exploration",
        "technique": "deterministic simulation: SQL -> real planner/optimiser/join nodes over gated simulator tables, seeded interleaving incl. which input finishes first, nested-loop SQL join oracle (NULL never equal)",
        "level_text": ("seeded exploration of generated join queries (inner/left/right/full/lookup, 1-3 key columns, theta and WHERE conjuncts, nested third table, optimiser on/off) x "
                       "generated tables with NULL and duplicate keys x input interleavings; final consolidated output compared with a reference SQL join"),
        "level_note": "trusted: reference nested-loop join with three-valued key equality, synctest quiescence; LOOKUP JOIN has no schedule dimension (sequential) and is counted separately in probes",
        "parts": [{"check": "c02", "quick": 40000, "thorough": 1000000}],
        "rule": ("each run draws a join query shape (optionally a cross-table equality in WHERE on top of ON), 2-3 tables (0..N rows, keys from {1,2,3,NULL}, duplicates likely; in a quarter of the runs streamed: "
                 "event times and truthful watermarks), how the result is observed (collecting sink, or printed by `octosql -o <mode>` through RunE's own tail and the real printers, half of the runs) and the message interleaving of the table sources; "
                 "non-trivial = at least 2 input rows in total; distinct = distinct (query-shape hash, tables+schedule hash) pairs"),
        "components": {"real": ["sqlparser", "parser", "logical typecheck", "optimizer", "physical.Materialize", "nodes.StreamJoin/OuterJoin/LookupJoin/Filter/Map", "functions (=, <, >=, AND)"],
                       "stub": ["table sources (sim database, scripted and gated)", "sink (collecting) or captured stdout", "cobra command, config file, plugin discovery (not run)"]},
        "assumptions": ["reference nested-loop SQL join in /verif/sim/model.go", "testing/synctest quiescence (go1.26.8 runtime)"],
    },
    "C05": {
        "level": "exploration",
        "technique": "deterministic simulation: LIMIT / ORDER BY queries (top level, subquery, WITH) over gated simulator tables run through RunE's own tail and the real printers in all five output modes; seeded interleavings of join inputs, retraction-bearing inputs (outer joins, counting triggers, changelog tables), clock jumps for the live table; oracle reads the printed rows",
        "level_text": ("seeded exploration of (query shape x nesting x ORDER BY keys x LIMIT n incl. 0 x output mode x optimiser flag) x generated tables x message interleavings of the inputs: "
                       "the printed rows must be exactly min(n, rows) rows of the reference result (multiplicities respected), in sort order and the first n of the sort order under ORDER BY"),
        "level_note": ("trusted: reference result (nested-loop join, batch grouping, distinct), decoding of the printed text for ints/NULL/identifiers; the code from sqlparser.Parse to sink.Run is RunE's own, "
                       "copied at build time by tools/mkoverlay into cmd.SimRunQuery; the schedule-free part of the statement (a single batch table) is explored too but is not what this technique adds"),
        "parts": [{"check": "c05", "quick": 40000, "thorough": 1000000},
                  # the real binary (cobra, config, RunE as compiled, real csv/json files): scheduling is the OS's here - monitored, not scheduled
                  {"check": "c05cli", "kind": "proc", "script": "c05cli.py", "quick": 640, "thorough": 10000}],
        "rule": ("each run draws a base query (single table, inner join, left/right/full outer join, GROUP BY with a counting trigger, DISTINCT, changelog table with retractions, LOOKUP JOIN over a LIMIT subquery), a nesting "
                 "(top level, subquery, subquery + outer LIMIT, subquery LIMIT + outer ORDER BY, WITH, ORDER BY only), 0-2 sort keys with directions, n from {0,1,2,3,4,6,9,100}, one of the five output modes, "
                 "tables and the interleaving of the sources; non-trivial = at least 2 input messages; distinct = distinct (shape tuple, tables+schedule) pairs"),
        "components": {"real": ["cmd/root.go RunE from sqlparser.Parse to sink.Run (build-time copy)", "parser", "typecheck", "optimizer", "physical.Materialize", "nodes.Limit/OrderSensitiveTransform/StreamJoin/OuterJoin/CustomTriggerGroupBy/Distinct",
                                "outputs/batch, outputs/eager, outputs/stream printers", "formats table/csv/json"],
                       "stub": ["table sources (sim database, scripted and gated)", "stdout (captured)", "config file, plugin discovery, telemetry (not run)"]},
        "assumptions": ["reference result computed in /verif/sim", "testing/synctest quiescence and fake clock (go1.26.8 runtime)"],
    },
    "C15": {
        "level": "exploration",
        "technique": "deterministic simulation: seeded valid changelogs (and, for joins, seeded two-input schedules) fed to each real execution node; running-multiset monitor plus batch reference operator",
        "level_text": ("seeded exploration of valid changelogs (inserts, retractions, duplicates, watermarks, zero and non-zero event times) through each real operator "
                       "(filter, map, distinct, simple and custom-trigger group by with every trigger combination, lookup join, order by; stream/outer join under seeded interleavings); "
                       "after every emitted record the output multiset must stay non-negative, at the end it must equal the reference operator on the consolidated input"),
        "level_note": "trusted: reference operators in /verif/sim (filter/map/distinct/group-by/join/sort written independently), expression leaves are Go closures so no SQL function semantics is on trial",
        "parts": [{"check": "c15", "quick": 80000, "thorough": 3000000}],
        "rule": ("each run draws an operator, its configuration (trigger set, sort direction, lookup table) and a valid changelog; joins additionally draw the interleaving; "
                 "non-trivial = at least 2 input messages; distinct = distinct (operator+config+script-shape hash, full script/schedule hash) pairs"),
        "components": {"real": ["nodes.Filter/Map/Distinct/SimpleGroupBy/CustomTriggerGroupBy/LookupJoin/OrderSensitiveTransform/StreamJoin/OuterJoin/EventTimeBuffer", "execution triggers", "aggregates count/sum"],
                       "stub": ["sources (scripted)", "sink (collecting)", "expression leaf functions (Go closures)"]},
        "assumptions": ["reference operators in /verif/sim", "generated changelogs never retract an absent row and carry no late records"],
    },
    "C22": {
        "level": "exploration",
        "technique": "deterministic simulation: seeded valid watermarked changelogs through the real wrapper; consolidated-prefix oracle at every forwarded watermark, record-identity conservation monitor",
        "level_text": ("seeded exploration of valid changelogs with watermarks (duplicates, retractions, out-of-order and zero event times) through the real "
                       "InternallyConsistentOutputStreamWrapper; at every forwarded watermark W the emitted records must consolidate to the input with event time <= W, "
                       "every emitted record must be one that was received (values, sign, event time; never more often), and everything must be out by end of stream"),
        "level_note": "trusted: multiset consolidation model; input changelogs are valid (no retraction of an absent row) and carry no late records",
        "parts": [{"check": "c22", "quick": 80000, "thorough": 4000000}],
        "rule": "each run draws one changelog (<=8 steps quick, <=24 thorough, value domain 1-3 so duplicates and matching retractions are common); non-trivial = >=2 messages; distinct = distinct (shape, full script) pairs",
        "components": {"real": ["stream.InternallyConsistentOutputStreamWrapper"], "stub": ["source (scripted)", "sink (collecting)"]},
        "assumptions": ["multiset model in /verif/sim/model.go"],
    },
    "C14": {
        "level": "exploration",
        "technique": "deterministic simulation (weakest fit: sequential object; the simulated nondeterminism is the delivery order of additions and retractions): seeded prefix-valid histories, step-by-step refinement against a from-scratch aggregate",
        "level_text": ("seeded exploration of add/retract histories (prefix-valid, and arbitrary interleavings of the same operations) over edge-heavy domains for every registered aggregate descriptor "
                       "(count, sum, avg, min, max, array_agg and the _distinct variants x int/float/duration/time/any); after every step with a non-empty net multiset "
                       "Trigger() must equal the aggregate recomputed from scratch (float sums within eps*n*sum|x| of the history)"),
        "level_note": "trusted: from-scratch aggregate definitions in /verif/sim/c14.go; NaN excluded everywhere and -0.0 excluded from _distinct histories (ordering/hash agreement of those values is C09, not on trial here); float magnitudes kept below overflow",
        "parts": [{"check": "c14", "quick": 200000, "thorough": 6000000}],
        "rule": ("each run draws an aggregate descriptor and a history (<=10 steps quick, <=40 thorough): prefix-valid (retractions only of present values) or, in a quarter of the runs, the same additions and retractions in an arbitrary order "
                 "(a retraction may precede its addition; the oracle is evaluated whenever the net multiset is a multiset and non-empty); a value once reported must not change afterwards; non-trivial = >=2 steps; distinct = distinct (aggregate+type, full history) pairs"),
        "components": {"real": ["every Prototype() in aggregates.Aggregates"], "stub": ["the group-by around the aggregate (histories are fed directly)"]},
        "assumptions": ["the oracle is evaluated only at points where no multiplicity is negative"],
    },
    "C17": {
        "level": "exploration",
        "technique": "deterministic simulation: seeded event histories (records, retractions, watermarks, end of stream) against (a) the real trigger objects vs a reference trigger model polled after every event and (b) the real CustomTriggerGroupBy with required-emission and justified-emission monitors",
        "level_text": ("seeded exploration over every trigger combination (COUNTING n in 1..4, ON WATERMARK, ON END OF STREAM, all subsets): (a) trigger objects are polled after every event "
                       "and must fire exactly the keys a reference trigger model fires; (b) at node level, after the n-th, 2n-th ... record of a key the output must hold its current result, at the instant a "
                       "watermark W is forwarded the output must hold the current result of every key with key time <= W, every emission before end of stream must be justified by a configured trigger, "
                       "and ON END OF STREAM alone emits every remaining key exactly once at the end"),
        "level_note": ("trusted: reference trigger model and per-key batch aggregate in /verif/sim/c17.go; the processing order behind the group-by's event-time buffer is taken from C18's buffer specification. "
                       "Deliberately not flagged: the end-of-stream flush of a counting-only group-by and redundant retract/re-emit of an unchanged result"),
        "parts": [{"check": "c17", "quick": 120000, "thorough": 4000000}],
        "rule": "each run draws a trigger configuration and an event history (<=10 events quick, <=32 thorough; at object level late keys, and keys from {1,2,3,0,NULL}: two different keys with the same hash); non-trivial = >=2 events; distinct = distinct (config+shape, full history) pairs",
        "components": {"real": ["execution.CountingTrigger/WatermarkTrigger/EndOfStreamTrigger/MultiTrigger", "nodes.CustomTriggerGroupBy", "nodes.EventTimeBuffer", "aggregates count/sum"],
                       "stub": ["source (scripted)", "sink (collecting)"]},
        "assumptions": ["input changelogs are valid and carry no late records; a row's event time is its time column"],
    },
    "C16": {
        "level": "exploration",
        "technique": "deterministic simulation: SQL GROUP BY ... TRIGGER ... through the real planner over a scripted watermarked changelog source; seeded histories x every trigger subset; batch-grouping oracle at end of stream",
        "level_text": ("seeded exploration of watermarked/batch changelogs with retractions x every TRIGGER combination (COUNTING n in 1..4, ON WATERMARK, ON END OF STREAM, all subsets, and no clause) "
                       "x grouping with/without the time field x optimiser on/off, planned from SQL text by the real parser/typechecker/optimiser; consolidated output at end of stream must equal the batch grouping"),
        "level_note": "trusted: reference batch group-by (count/sum/min over non-NULL inputs, NULL for an all-NULL group); aggregates limited to count/sum/min so that the verdict is about triggers, not C14",
        "parts": [{"check": "c16", "quick": 60000, "thorough": 3000000}],
        "rule": "each run draws a trigger configuration, key shape, optimiser flag and a valid changelog (<=8 steps quick, <=24 thorough; late insertions included); aggregates count/sum/min/array_agg; a part of the runs reads the result as printed by `octosql -o <mode>`; non-trivial = >=2 messages; distinct = distinct (config+shape, full script) pairs",
        "components": {"real": ["sqlparser", "parser (ParseTrigger)", "logical.GroupBy typecheck", "optimizer", "physical.Materialize", "nodes.SimpleGroupBy/CustomTriggerGroupBy/EventTimeBuffer/Map", "triggers", "aggregates count/sum/min"],
                       "stub": ["table source (sim database, scripted)", "sink (collecting)"]},
        "assumptions": ["input changelogs are valid, a record's event time equals its time column, no late records"],
    },
    "C20": {
        "level": "exploration",
        "technique": "deterministic simulation: SQL max_diff_watermark over a scripted source with seeded arrival order (bounded reordering, duplicates); reference watermark generator stepped per event, exact output-sequence equality",
        "level_text": ("seeded exploration of time sequences (in and out of order, duplicates, off-grid milliseconds, low-weight pre-1970 times, optional source watermarks) x max_diff x resolution; "
                       "the emitted sequence of records and watermarks must equal the one a reference generator emits step by step"),
        "level_note": "trusted: reference generator in /verif/sim/c20.go (rounding down = mathematical floor to a multiple of the resolution counted from the Unix epoch)",
        "parts": [{"check": "c20", "quick": 100000, "thorough": 4000000}],
        "rule": "each run draws max_diff, resolution, epoch range and a time sequence (<=10 records quick, <=40 thorough); in a third of the runs the same materialised node is run a second time and must emit the same sequence; non-trivial = >=2 messages; distinct = distinct (config+shape, full input) pairs",
        "components": {"real": ["sqlparser/parser/typecheck of the table valued function", "table_valued_functions.MaxDiffWatermark"], "stub": ["table source (scripted)", "sink (collecting)"]},
        "assumptions": ["times within the range representable as int64 nanoseconds"],
    },
    "C21": {
        "level": "exploration",
        "technique": "deterministic simulation: poll runs on the simulator's fake clock (synctest) against scripted snapshots with injected source stalls; tumble over seeded watermarked changelogs; per-round / per-record oracle",
        "level_text": ("poll: seeded snapshots and injected source latency, k rounds on the simulated clock, each round must retract exactly the previous snapshot, emit the current one stamped with the round's "
                       "simulated time and then a watermark, with round spacing = interval + stall; tumble: every record keeps its fields, sign and event time and gains an aligned window containing its time, "
                       "watermarks pass unchanged in place; range: ascending, each integer once, also when a LIMIT stops it early (by-product: no schedule or clock dimension)"),
        "level_note": "trusted: synctest fake clock; only the default 1s poll interval is reachable in this snapshot (poll_interval is declared as a DESCRIPTOR and cannot be planned), so the interval is not a simulated configuration",
        "parts": [{"check": "c21", "quick": 30000, "thorough": 2000000}],
        "rule": "each run draws one of tumble (window length, offset, changelog), range (start, end, limit; or run once per outer record as the joined side of a LOOKUP JOIN with bounds that depend on it) or poll (2-7 rounds of snapshots, stalls); non-trivial = >=2 messages/rounds; distinct = distinct (shape, content) pairs",
        "components": {"real": ["table_valued_functions.Tumble/Range/Poll", "planner", "nodes.Limit"], "stub": ["table sources (scripted snapshots)", "sink", "wall clock (synctest fake clock)"]},
        "assumptions": ["window lengths divide a day, so alignment does not depend on the time origin"],
    },
    "C18": {
        "level": "exploration",
        "technique": "deterministic simulation: watermark-monotonicity and late-record monitors attached to every streaming run (single operators, joins under seeded schedules, SQL group-by, max_diff_watermark->tumble->group-by->join pipelines) plus an exact event-time-buffer release model",
        "level_text": ("seeded exploration with monitors on the output of every node kind and of small SQL pipelines: emitted watermarks never decrease; given inputs without late records no record is emitted with a non-zero event "
                       "time at or below an already emitted watermark; the real EventTimeBuffer must emit exactly the specified sequence (each record once, unchanged, event-time order with arrival-order ties, before the first watermark "
                       "at or above its time, rest at end of stream, zero-time records straight through)"),
        "level_note": "trusted: the monitors and the buffer release model in /verif/sim/c18.go; inputs carry no late records by construction",
        "parts": [{"check": "c18", "quick": 60000, "thorough": 2000000}],
        "rule": "each run draws a scenario family (buffer / single operator, incl. a group-by keyed without the time column over retractions that carry their own later event times / join under schedule / SQL group-by / SQL pipeline / poll) and its history; non-trivial = >=2 input messages; distinct = distinct (shape, history+schedule) pairs",
        "components": {"real": ["nodes.EventTimeBuffer", "every execution node of C15", "StreamJoin/OuterJoin", "max_diff_watermark", "tumble", "CustomTriggerGroupBy", "planner"], "stub": ["sources (scripted, gated)", "sink"]},
        "assumptions": ["a row's event time equals its time column where it has one"],
    },
    "C23": {
        "level": "exploration",
        "technique": "deterministic simulation: real file datasources read through a simulated disk (tape-chosen short reads, buffer sizes) and, for JSON, a per-run parser pool of 1-16 workers whose hand-offs are gated so the tape decides batch completion order and when EOF is reported; independent decoding as oracle; stdin fed through a pipe in tape-chosen chunks to the real binary",
        "level_text": ("seeded exploration of generated files (row counts across the 64-line batch and 100-row preview boundaries, unicode, escapes, nested JSON, quoted CSV/TSV, custom and multi-byte line separators) x "
                       "worker counts x gated worker/reader schedules x read-chunk patterns x buffer sizes; every source must return exactly one record per row, in file order, with the row's values"),
        "level_note": ("trusted: independent decoders (encoding/json, generator-side row lists); all rows of a file conform to one schema (schema inference is C24). Not covered: parquet (opens the file itself through a third-party ReadAt reader: no seam, no scheduling dimension); "
                       "CRLF handling of the default newline separator (bufio.ScanLines drops a trailing \\r by design)"),
        "parts": [{"check": "c23", "quick": 12000, "thorough": 300000}, {"check": "c23stdin", "kind": "proc", "script": "c23stdin.py", "quick": 320, "thorough": 8000}],
        "rule": ("each run draws a source kind (json, csv/tsv with or without header line, lines), a file, knobs (workers, buffer size, chunk pattern) and for JSON the release order of every gated hand-off; stdin: chunked pipe, the table referenced once or twice; non-trivial = >=2 rows; "
                 "distinct = distinct (kind+size+knobs, content/schedule) pairs"),
        "components": {"real": ["datasources/json (Creator, DatasourceExecuting, worker pool via build overlay)", "datasources/csv", "datasources/lines", "execution/files.OpenLocalFile", "stdin preview/replay in the real octosql binary"],
                       "stub": ["disk (reads served by the simulated disk over the real file)", "sink"]},
        "assumptions": ["the build overlay only turns the package-init pool constructor into a named function (tools/mkoverlay)"],
    },
    "C06": {
        "level": "fault_enumeration",
        "technique": "deterministic simulation with fault injection: one seeded fault per run (read error at byte k on the simulated disk, malformed row, over-long line, failing expression at row p) under a generated query shape over the real file datasources; fault-free twin as reference; real-binary cross-check of exit status",
        "level_text": ("seeded sampling of (source kind x query shape x fault kind x fault position x preview/execution phase x knobs): a query that has to consume the faulty part must return an error; "
                       "a LIMIT query may succeed only with exactly the output of the fault-free twin; the fault-free configuration is run separately in 1/8 of the runs. "
                       "The process-tier part repeats the scenario family against the real octosql binary and checks the exit status and error message"),
        "level_note": "trusted: the fault-free twin run of the same code as reference for complete output; 'must consume' is decided per shape (everything except LIMIT 2 reads its inputs to the end)",
        "parts": [{"check": "c06", "quick": 8000, "thorough": 100000, "env": {"VERIF_SHRINK_BUDGET": "120"}},
                  {"check": "c06cli", "kind": "proc", "script": "c06cli.py", "quick": 480, "thorough": 6000}],
        "rule": ("each run draws source kind (json/csv/lines), one of 18 query shapes (plain, WHERE, DISTINCT, ORDER BY, GROUP BY, JOIN, LEFT JOIN, LOOKUP JOIN, IN-subquery, scalar subquery, LIMIT small/large, ORDER BY+LIMIT, COUNT(*), "
                 "failing expression above a LIMIT subquery / above a GROUP BY subquery / as ORDER BY key, max_diff_watermark -> GROUP BY .. TRIGGER ON WATERMARK with exactly one failing row), "
                 "fault kind and position, faulted table (main or joined/sub), optimiser flag, worker count and line limit; distinct = distinct (shape tuple, position/knobs) pairs"),
        "components": {"real": ["planner", "datasources json/csv/lines", "execution nodes incl. Distinct/OrderSensitiveTransform/Limit/joins", "query expressions (subqueries)", "functions.panic"],
                       "stub": ["disk (simulated over real files)", "sink"]},
        "assumptions": ["a failing schema preview at plan time counts as the query failing"],
    },
    "C29": {
        "level": "exploration",
        "technique": "deterministic simulation under the Go race detector: the C19/C02/C23/C06 workloads and a shared-state scenario (JSON on both join sides, regexp filters in both branches, LIMIT, injected faults, stalling sink) run in a -race build of the simulator whose gate operations are invisible to the detector; seeded schedules; quiescence-based deadlock oracle",
        "level_text": ("seeded exploration of schedules of real concurrent query execution (join input goroutines, JSON line reader / parser pool / consumer, shared regexp caches) with the race detector as data-race oracle "
                       "and 'quiescent, nothing left to release, Run has not returned' as the deadlock oracle, including queries that stop early because of LIMIT or an injected error; "
                       "the stdin preview/replay reader and the real binary as a whole run in the process tier under -race with uncontrolled scheduling (monitored, not scheduled)"),
        "level_note": ("trusted: Go race detector (happens-before based, reports only races that occur in explored executions); controller gate operations are bracketed by runtime.RaceDisable/Enable so they add no happens-before edges; "
                       "ristretto cache internals are third-party threads that run for real; goroutines a query leaves behind after Run returned are drained and counted as a probe, not a violation"),
        "parts": [{"check": "c29", "race": True, "quick": 2400, "thorough": 20000, "env": {"VERIF_SHRINK_BUDGET": "150"}},
                  # the same scenarios on several Ps: with one P, sync.Pool hand-offs inside third-party code order the goroutines and can hide a race
                  {"check": "c29", "tag": ".p4", "race": True, "gomaxprocs": 4, "workers": 4, "offset": 100000000, "quick": 300, "thorough": 3000, "env": {"VERIF_SHRINK_BUDGET": "150"}},
                  # the real binary built with the race detector: stdin reader (pipe fed in chunks), file joins, LOOKUP JOIN, subqueries,
                  # LIMIT and malformed rows; the operating system schedules (monitored, not scheduled), up to 3 executions per scenario
                  {"check": "c29cli", "kind": "proc", "script": "c29cli.py", "race_binary": True, "workers": 12, "quick": 48, "thorough": 1500, "env": {"VERIF_SHRINK_BUDGET": "0"}},
                  ],
        "rule": ("each run draws a scenario family (stream/outer join; SQL join; JSON file; injected fault; JSON x JSON join with pattern filters, LIMIT, faults, stalling sink; big JSON file (up to 20 000 lines) under LOOKUP JOIN / LIMIT / join + LIMIT; "
                 "join stopped early with 10 000+ rows outstanding; the C05 LIMIT/ORDER BY scenarios through the real printers) and its workload, knobs and complete gate release order; process tier: race-built real binary, up to 3 executions per scenario; "
                 "non-trivial = >=2 input rows/messages; distinct = distinct (shape, schedule) pairs"),
        "components": {"real": ["nodes.StreamJoin/OuterJoin input goroutines", "datasources/json reader, worker pool (overlay constructor), consumer", "functions regexp/LIKE caches (ristretto)", "planner", "Limit", "files.OpenLocalFile"],
                       "stub": ["sim tables / simulated disk", "sink (optionally stalling)"]},
        "assumptions": ["runtime differences between go1.26.8 (simulator) and the shipped toolchain are out of scope"],
    },
    "C27": {
        "level": "fault_enumeration",
        "engine": "octoproc",
        "technique": "deterministic simulation with crash injection at the process tier: real octosql binary, scratch HOME as durable disk, seeded crash point x mode (SIGKILL at a filesystem step, or kernel-made torn write at byte k via RLIMIT_FSIZE), optional second crash during the retry, then fault-free recovery invocations through the real plugin path",
        "level_text": ("seeded sampling (plus systematic enumeration: a core of it in the quick tier, all of it in the thorough tier) of initial install state x configuration x operation (install latest / pinned / same version again / from config / repository add / first install of another plugin) x crash point x crash mode x torn-write length; "
                       "after the last crash: octosql must still start, every database that resolved before must still run and answer with the previous or the new plugin version (the new one if the operation completed), "
                       "and `octosql plugin install` must bring every configured database to a runnable version"),
        "level_note": "trusted: kernel RLIMIT_FSIZE/SIGXFSZ semantics for torn writes, SIGKILL for crashes (process-kill model: the page cache survives; power-loss reordering of unsynced writes is not modelled); the HTTP transport is a file-serving stub (hook H5)",
        "parts": [{"check": "c27", "kind": "proc", "script": "c27.py", "needs_plugin": True, "workers": 12, "quick": 246, "thorough": 9000}],
        "rule": "each run draws (initial state, config, operation) = 72 templates, 1-2 crashes (point among those a clean run of the template passes, kill or tear:k); distinct = distinct (template, crash sequence) pairs",
        "components": {"real": ["octosql binary: cmd, plugins/manager, plugins/repository, archiver, plugins/executor (exec + gRPC over unix socket), test plugin built on the plugins SDK"],
                       "stub": ["HTTP transport (files)", "crash selection (hook H4 crash points read VERIF_CRASH)"]},
        "assumptions": ["crash points of hook H4 sit between all filesystem steps of the three code paths"],
    },
}
